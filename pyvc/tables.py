"""Ground (finite, exhaustively enumerated) obligations over the generated pack tables."""
