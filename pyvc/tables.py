"""Extraction of the generated pack tables from the AST of the working tree, and the
ground (finite, completely enumerated) obligations over them."""
import ast
import glob
import hashlib
import json
import os
import re

ACCESSOR_CLASSES = {
    "GeckoByteStructAccessor": ("tag", "pos", "rw"),
    "GeckoWordStructAccessor": ("tag", "pos", "rw"),
    "GeckoTimeStructAccessor": ("tag", "pos", "rw"),
    "GeckoTempStructAccessor": ("tag", "pos", "rw"),
    "GeckoBoolStructAccessor": ("tag", "pos", "bitpos", "rw"),
    "GeckoEnumStructAccessor": ("tag", "pos", "bitpos", "items", "size", "maxitems", "rw"),
}

_CACHE = {}


def packs_dir(repo):
    return os.path.join(repo, "src", "geckolib", "driver", "packs")


class NonLiteral(Exception):
    pass


def literal(node):
    try:
        return ast.literal_eval(node)
    except Exception:
        raise NonLiteral(ast.dump(node)[:100])


def prop_return(cls, name):
    """literal returned by `@property def name(self): return <literal>`"""
    for n in cls.body:
        if isinstance(n, ast.FunctionDef) and n.name == name:
            for st in n.body:
                if isinstance(st, ast.Return):
                    return st.value
    return None


def extract_module(path):
    src = open(path, encoding="utf-8").read()
    tree = ast.parse(src)
    base = os.path.basename(path)[:-3]
    out = {"module": base, "file": path, "sha1": hashlib.sha1(src.encode()).hexdigest(), "problems": []}
    m = re.match(r"^(.*)-(cfg|log)-(\d+)$", base)
    if m:
        out["platform"], out["kind"], out["file_version"] = m.group(1), m.group(2), int(m.group(3))
    else:
        out["platform"], out["kind"], out["file_version"] = base, "pack", None
    cls = None
    for n in tree.body:
        if isinstance(n, ast.ClassDef) and n.name in ("GeckoConfigStruct", "GeckoLogStruct", "GeckoPack"):
            cls = n
    if cls is None:
        out["problems"].append("no table class")
        return out
    out["class"] = cls.name
    out["doc"] = ast.get_docstring(tree) or ""
    for key in ("version", "begin", "end", "output_keys", "all_device_keys", "user_demand_keys", "error_keys", "name", "type", "revision"):
        v = prop_return(cls, key)
        if v is not None:
            try:
                out[key] = literal(v)
            except NonLiteral as e:
                out["problems"].append("non-literal %s: %s" % (key, e))
    items = []
    acc = prop_return(cls, "accessors")
    if acc is not None:
        if not isinstance(acc, ast.Dict):
            out["problems"].append("accessors is not a dict literal")
        else:
            for k, v in zip(acc.keys, acc.values):
                try:
                    key = literal(k)
                    if not (isinstance(v, ast.Call) and isinstance(v.func, ast.Name) and v.func.id in ACCESSOR_CLASSES):
                        raise NonLiteral("not an accessor constructor call: " + ast.unparse(v)[:80])
                    names = ACCESSOR_CLASSES[v.func.id]
                    if not (isinstance(v.args[0], ast.Attribute) and ast.unparse(v.args[0]) == "self.struct"):
                        raise NonLiteral("first argument is not self.struct")
                    if len(v.args) != len(names) + 1 or v.keywords:
                        raise NonLiteral("unexpected arity")
                    d = {"key": key, "cls": v.func.id, "line": v.lineno}
                    for nm, a in zip(names, v.args[1:]):
                        d[nm] = literal(a)
                    items.append(d)
                except NonLiteral as e:
                    out["problems"].append("item %s: %s" % (ast.unparse(k)[:40], e))
    out["items"] = items
    return out


def all_modules(repo):
    key = ("mods", repo)
    sig = tuple(sorted((p, os.stat(p).st_mtime_ns, os.stat(p).st_size) for p in glob.glob(os.path.join(packs_dir(repo), "*.py"))))
    if key in _CACHE and _CACHE[key][0] == sig:
        return _CACHE[key][1]
    mods = []
    for p, _, _ in sig:
        if os.path.basename(p) == "__init__.py":
            continue
        mods.append(extract_module(p))
    _CACHE[key] = (sig, mods)
    return mods


def shape_of(it):
    """what the accessor's behaviour depends on (everything but tag and position)"""
    c = it["cls"]
    if c == "GeckoEnumStructAccessor":
        items = it["items"]
        items = tuple(items.split("|")) if isinstance(items, str) else (tuple(items) if items is not None else None)
        return (c, it["bitpos"], items, it["size"], it["maxitems"], it["rw"] is None)
    if c == "GeckoBoolStructAccessor":
        return (c, it["bitpos"], None, None, None, it["rw"] is None)
    return (c, None, None, None, None, it["rw"] is None)


def c02_shapes(repo):
    """distinct accessor shapes over every item of every cfg/log table, with the items they stand for"""
    shapes = {}
    for m in all_modules(repo):
        for it in m.get("items", []):
            s = shape_of(it)
            e = shapes.setdefault(s, {"count": 0, "example": None, "raw": None})
            e["count"] += 1
            if e["example"] is None:
                e["example"] = "%s:%s" % (m["module"], it["key"])
                e["raw"] = it
    out = []
    for s in sorted(shapes, key=lambda s: (s[0], str(s[1]), str(s[3]), str(s[4]), str(s[2]), s[5])):
        e = shapes[s]
        it = e["raw"]
        out.append({
            "cls": s[0], "bitpos": s[1], "items": list(s[2]) if s[2] is not None else None, "items_raw": it.get("items"),
            "size": s[3], "maxitems": s[4], "readonly": s[5], "rw": it["rw"],
            "count": e["count"], "example": e["example"],
            "id": hashlib.sha1(repr(s).encode()).hexdigest()[:10],
        })
    return out


def c02_writable_shapes(repo):
    return [s for s in c02_shapes(repo) if not s["readonly"] and s["cls"] != "GeckoTempStructAccessor"]


def c02_readonly_shapes(repo):
    return [s for s in c02_shapes(repo) if s["readonly"]]


def c02_all_nontemp_shapes(repo):
    return [s for s in c02_shapes(repo) if s["cls"] != "GeckoTempStructAccessor"]


def c13_command_shapes(repo):
    """shapes of the items facade commands write: user demands (Ud*), economy mode, temperature unit"""
    shapes = {}
    for m in all_modules(repo):
        for it in m.get("items", []):
            k = it["key"]
            if not (k.startswith("Ud") or k in ("EconActive", "TempUnits")):
                continue
            if it["rw"] is None or it["cls"] not in ("GeckoBoolStructAccessor", "GeckoEnumStructAccessor"):
                continue
            s = shape_of(it)
            e = shapes.setdefault(s, {"count": 0, "example": "%s:%s" % (m["module"], k), "raw": it})
            e["count"] += 1
    out = []
    for s in sorted(shapes, key=lambda s: (s[0], str(s[1]), str(s[3]), str(s[4]), str(s[2]))):
        e = shapes[s]
        it = e["raw"]
        out.append({"cls": s[0], "bitpos": s[1], "items": list(s[2]) if s[2] is not None else None, "items_raw": it.get("items"),
                    "size": s[3], "maxitems": s[4], "readonly": False, "rw": it["rw"], "count": e["count"], "example": e["example"],
                    "id": hashlib.sha1(repr(s).encode()).hexdigest()[:10]})
    return out


def c19_version_pairs(repo):
    """platform x (config, log) pairs incl. ones whose versions differ (the shipped inYJ snapshots are cfg 62 / log 59)"""
    out = []
    for p in c04_platforms(repo):
        if not p["cfg"] or not p["log"]:
            continue
        pairs = [(p["cfg"][0], p["log"][-1]), (p["cfg"][-1], p["log"][0])]
        for c, l in dict.fromkeys(pairs):
            out.append({"id": "%s-c%d-l%d" % (p["platform"], c, l), "platform": p["platform"], "name": p["name"], "cfg": c, "log": l,
                        "example": "%s cfg %d log %d" % (p["name"], c, l)})
    return out


def c19_chunks(repo):
    import os as _os
    tier = _os.environ.get("VERIF_TIER_EFFECTIVE", "quick")
    tricky = [0x00, 0x0a, 0x0d, 0x20, 0x22, 0x27, 0x5b, 0x5c, 0x5d, 0x2c, 0x30, 0x78, 0x41, 0x7f, 0x80, 0xff, 0x3c, 0x3e, 0x2f]
    firsts = list(range(256)) if tier == "thorough" else tricky
    n = 16
    return [{"id": "chunk%d" % i, "first": firsts[i::n], "singles": True, "example": "first bytes %s..." % firsts[i::n][:3]} for i in range(n) if firsts[i::n]]


def c04_platforms(repo):
    mods = all_modules(repo)
    out = []
    for p in sorted((m for m in mods if m.get("kind") == "pack"), key=lambda m: m["module"]):
        cfg = sorted(m["file_version"] for m in mods if m.get("kind") == "cfg" and m["platform"] == p["platform"])
        log = sorted(m["file_version"] for m in mods if m.get("kind") == "log" and m["platform"] == p["platform"])
        out.append({"id": p["platform"], "platform": p["platform"], "name": p.get("name"), "cfg": cfg, "log": log,
                    "example": "%s: %d config x %d log versions" % (p["platform"], len(cfg), len(log))})
    return out


def c18_all_platforms_together(repo):
    """one case holding every shipped platform: the lookups run one after the other in one process"""
    plats = c04_platforms(repo)
    n = sum(len(p["cfg"]) + len(p["log"]) for p in plats)
    return [{"id": "all-platforms", "platforms": plats, "lookups": n,
             "example": "%d platforms, %d (platform, config, log) names looked up in sequence" % (len(plats), n)}]


def c14_flag_shapes(repo):
    """shapes of the heater's flag items (Heating, CoolingDown) over all log tables"""
    shapes = {}
    for m in all_modules(repo):
        for it in m.get("items", []):
            if it["key"] in ("Heating", "CoolingDown") and it["cls"] in ("GeckoBoolStructAccessor", "GeckoEnumStructAccessor"):
                sh = shape_of(it)
                shapes.setdefault(sh, {"example": "%s:%s" % (m["module"], it["key"]), "raw": it, "count": 0})["count"] += 1
    out = []
    for sh in sorted(shapes, key=repr):
        e = shapes[sh]
        it = e["raw"]
        out.append({"cls": sh[0], "bitpos": sh[1], "items": list(sh[2]) if sh[2] is not None else None, "items_raw": it.get("items"),
                    "size": sh[3], "maxitems": sh[4], "readonly": sh[5], "rw": it["rw"], "count": e["count"], "example": e["example"],
                    "id": hashlib.sha1(repr(sh).encode()).hexdigest()[:10]})
    return out


def c14_units(repo):
    return [{"id": "celsius", "celsius": True, "example": "TempUnits == C"},
            {"id": "fahrenheit", "celsius": False, "example": "TempUnits == F"}]


# ===================================================================== C18 ground checks
def _interp(repo):
    from .interp import Interp
    return Interp([("geckolib", os.path.join(repo, "src", "geckolib"))])


def derived_layouts(repo):
    """run the REAL accessor constructors (through pyvc) on every distinct shape and read
    back the derived length / format / bitmask -- so the mask logic is part of the layout"""
    from .interp import Instance
    I = _interp(repo)
    mod = I.import_module("geckolib.driver.accessor")
    out = {}
    for s in c02_shapes(repo):
        c = mod.ns[s["cls"]]
        if s["cls"] == "GeckoEnumStructAccessor":
            a = I.call(c, [None, "t", 0, s["bitpos"], s["items_raw"], s["size"], s["maxitems"], s["rw"]], {})
        elif s["cls"] == "GeckoBoolStructAccessor":
            a = I.call(c, [None, "t", 0, s["bitpos"], s["rw"]], {})
        else:
            a = I.call(c, [None, "t", 0, s["rw"]], {})
        out[shape_key(s)] = {"length": a.attrs.get("length"), "format": a.attrs.get("format"),
                             "bitmask": a.attrs.get("bitmask"), "type": a.attrs.get("type"),
                             "items": a.attrs.get("items"), "read_write": a.attrs.get("read_write")}
    return out


def shape_key(s):
    return json.dumps([s["cls"], s["bitpos"], s["items"], s["size"], s["maxitems"], s["readonly"]])


def item_shape_key(it):
    s = shape_of(it)
    return json.dumps([s[0], s[1], list(s[2]) if s[2] is not None else None, s[3], s[4], s[5]])


def layout_record(repo):
    """the published layout: per module, per item, everything a client depends on"""
    d = derived_layouts(repo)
    mods = {}
    for m in all_modules(repo):
        rec = {k: m.get(k) for k in ("class", "version", "begin", "end", "output_keys", "all_device_keys",
                                     "user_demand_keys", "error_keys", "name", "type", "revision") if k in m}
        items = {}
        for it in m.get("items", []):
            dl = d[item_shape_key(it)]
            items[it["key"]] = [it["cls"], it["tag"], it["pos"], it.get("bitpos"), dl["items"], dl["length"], dl["format"],
                                dl["bitmask"], it["rw"]]
        rec["items"] = items
        rec["item_order"] = [it["key"] for it in m.get("items", [])]
        mods[m["module"]] = rec
    return mods


PINNED = os.path.join(os.path.dirname(os.path.dirname(os.path.abspath(__file__))), "tables", "pinned_layout.json")

# anomalies present in the audited commit, recorded as known findings (ids in known_findings.json)
def _known_id(module, key, what):
    return "C18:%s:%s:%s" % (module, key, what)


def c18_ground(repo, tier):
    obs = []
    samples = []
    mods = all_modules(repo)
    d = derived_layouts(repo)
    n_items = 0

    def add(name, ok, detail="", witness=None, known=None):
        obs.append({"name": name, "status": "proved" if ok else "refuted", "detail": detail, "witness": witness,
                    "confirmed": not ok, "known": known if not ok else None})

    for m in mods:
        mod = m["module"]
        add("%s/parses-as-literal-table" % mod, not m["problems"], "; ".join(m["problems"]))
        keys = [it["key"] for it in m.get("items", [])]
        add("%s/item-keys-unique" % mod, len(keys) == len(set(keys)), "", [k for k in keys if keys.count(k) > 1][:5])
        bad_tag = [(it["key"], it["tag"]) for it in m.get("items", []) if it["key"] != it["tag"]]
        add("%s/key-equals-tag" % mod, not bad_tag, "", bad_tag[:5])
        per_item_fail = []
        for it in m.get("items", []):
            n_items += 1
            dl = d[item_shape_key(it)]
            length = dl["length"]
            pos = it["pos"]
            okp = isinstance(pos, int) and 0 <= pos and pos + length <= 1024
            if not okp:
                add("%s/%s/bytes-inside-status-block" % (mod, it["key"]), False,
                    "pos=%r length=%r exceeds the 1024-byte status block" % (pos, length),
                    {"module": mod, "key": it["key"], "pos": pos, "length": length}, _known_id(mod, it["key"], "position"))
            bp = it.get("bitpos")
            if bp is not None:
                mask = dl["bitmask"]
                okb = isinstance(bp, int) and bp >= 0 and mask is not None and ((mask << bp) < (1 << (8 * length)))
                if not okb:
                    add("%s/%s/bit-field-inside-bytes" % (mod, it["key"]), False, "bitpos=%r mask=%r length=%r" % (bp, mask, length),
                        {"module": mod, "key": it["key"]}, _known_id(mod, it["key"], "bitfield"))
            if dl["items"] is not None:
                nlab = len(dl["items"])
                cap = (dl["bitmask"] + 1) if bp is not None else 256 ** length
                if nlab > cap:
                    add("%s/%s/labels-representable" % (mod, it["key"]), False,
                        "%d labels but the field holds %d values" % (nlab, cap),
                        {"module": mod, "key": it["key"], "labels": nlab, "capacity": cap,
                         "native_demo": "write label %r then read: reads %r" % (dl["items"][cap], dl["items"][0])},
                        _known_id(mod, it["key"], "labels"))
            if it["cls"] == "GeckoEnumStructAccessor" and it.get("size") not in (None, 1, 2):
                add("%s/%s/size-is-1-or-2" % (mod, it["key"]), False, "size=%r" % (it.get("size"),))
        nbad = len([o for o in obs if o["name"].startswith(mod + "/") and o["status"] != "proved" and o["name"].count("/") == 2])
        add("%s/items-addressable-and-representable(%d items checked, %d failing listed separately)" % (mod, len(keys), nbad), True)
        # advertised keys name items
        if m.get("kind") == "cfg":
            missing = [k for k in m.get("output_keys", []) if k not in keys]
            add("%s/output-keys-name-items" % mod, not missing, "", missing)
        if m.get("kind") == "log":
            for fld in ("user_demand_keys", "error_keys"):
                missing = [k for k in m.get(fld, []) if k not in keys]
                add("%s/%s-name-items" % (mod, fld), not missing, "advertised keys without an item: %r" % missing, missing)
            add("%s/refresh-window-inside-block" % mod,
                isinstance(m.get("begin"), int) and isinstance(m.get("end"), int) and 0 <= m["begin"] and m["end"] >= 1,
                "begin=%r end=%r" % (m.get("begin"), m.get("end")))
        # naming
        if m.get("kind") in ("cfg", "log"):
            add("%s/declared-version-matches-file-name" % mod, m.get("version") == m.get("file_version"),
                "version property %r vs file %r" % (m.get("version"), m.get("file_version")))
            want = "GeckoConfigStruct" if m["kind"] == "cfg" else "GeckoLogStruct"
            add("%s/table-class-matches-kind" % mod, m.get("class") == want)
            packs = [p for p in mods if p.get("kind") == "pack" and p["platform"] == m["platform"]]
            add("%s/platform-pack-module-exists" % mod, len(packs) == 1)
            dm = re.search(r"for '(.*) v(\d+)'", m.get("doc", ""))
            add("%s/docstring-names-platform-and-version" % mod,
                bool(dm) and dm.group(1).lower() == m["platform"] and int(dm.group(2)) == m.get("file_version"),
                m.get("doc", "")[:80])
        elif m.get("kind") == "pack":
            add("%s/pack-name-matches-module" % mod, isinstance(m.get("name"), str) and m["name"].lower() == mod,
                "name %r" % (m.get("name"),))
            add("%s/pack-type-is-byte" % mod, isinstance(m.get("type"), int) and 0 <= m["type"] <= 255)
    # writability: every access level a table declares (None, "ALL", and the odd "Gecko" / "RD") survives the real constructors
    levels = sorted(set(repr(it["rw"]) for m in mods for it in m.get("items", [])))
    I = _interp(repo)
    accmod = I.import_module("geckolib.driver.accessor")
    for lv in levels:
        rw = ast.literal_eval(lv)
        kept = []
        for cname, args in (("GeckoByteStructAccessor", [None, "t", 0, rw]), ("GeckoWordStructAccessor", [None, "t", 0, rw]),
                            ("GeckoTimeStructAccessor", [None, "t", 0, rw]), ("GeckoBoolStructAccessor", [None, "t", 0, 1, rw]),
                            ("GeckoEnumStructAccessor", [None, "t", 0, 0, ["A", "B"], None, 2, rw]),
                            ("GeckoTempStructAccessor", [None, "t", 0, rw])):
            a = I.call(accmod.ns[cname], list(args), {})
            kept.append(a.attrs.get("read_write") == rw and type(a.attrs.get("read_write")) is type(rw))
        add("constructors-keep-the-declared-access-level:%s" % lv, all(kept), "read_write after construction differs from the table's declaration for %s" % lv)
    # config-file naming a spa reports: platform keys round-trip through lower()
    # pinned layout
    if os.path.exists(PINNED):
        pinned = json.load(open(PINNED))
        cur = layout_record(repo)
        for mod, rec in pinned["modules"].items():
            if mod not in cur:
                add("pinned/%s/module-still-published" % mod, False, "published module removed")
                continue
            c = cur[mod]
            diffs = []
            for k, v in rec.items():
                if k == "items":
                    continue
                if json.loads(json.dumps(c.get(k))) != v:
                    diffs.append("%s: %r -> %r" % (k, v, c.get(k)))
            for key, irec in rec["items"].items():
                ci = c["items"].get(key)
                if ci is None:
                    diffs.append("item %s removed" % key)
                elif json.loads(json.dumps(ci)) != irec:
                    diffs.append("item %s: %r -> %r" % (key, irec, ci))
            extra = [k for k in c["items"] if k not in rec["items"]]
            if extra:
                diffs.append("items added to a published layout: %r" % extra[:5])
            add("pinned/%s/layout-unchanged" % mod, not diffs, "; ".join(diffs[:6]), diffs[:20])
        add("pinned/audited-commit", True, pinned.get("commit", ""))
    else:
        obs.append({"name": "pinned/layout-file-present", "status": "unknown", "detail": "tables/pinned_layout.json missing"})
    samples.append({"obligation": "inxe-cfg-7/SetpointG bytes-inside-status-block", "verdict": "evaluated on literal table"})
    return {"name": "tables", "backend": "ground-eval(ast literal tables + real constructor via pyvc)", "obligations": obs,
            "samples": samples, "functions": {"geckolib.driver.accessor:GeckoStructAccessor.__init__": "executed on all %d shapes" % len(d)},
            "n_items": n_items, "n_modules": len(mods)}


if __name__ == "__main__":
    import sys
    if sys.argv[1:2] == ["pin"]:
        repo = sys.argv[2] if len(sys.argv) > 2 else "/repo"
        import subprocess
        commit = subprocess.run(["git", "-C", repo, "rev-parse", "HEAD"], capture_output=True, text=True).stdout.strip()
        os.makedirs(os.path.dirname(PINNED), exist_ok=True)
        json.dump({"commit": commit, "modules": layout_record(repo)}, open(PINNED, "w"), separators=(",", ":"), sort_keys=True)
        print("pinned", commit, os.path.getsize(PINNED))


def c04_regex_bounded(repo, tier):
    """bounded stand-in (never counted as proved): real _extract_packet_parts, native"""
    import subprocess
    bound = 3 if tier == "quick" else 5
    env = dict(os.environ)
    env["PYTHONPATH"] = os.path.join(repo, "src")
    verif = os.path.dirname(os.path.dirname(os.path.abspath(__file__)))
    p = subprocess.run([os.environ.get("PYVC_NATIVE_PY", "/venv/bin/python"), os.path.join(verif, "native", "c04_regex_bounded.py"), str(bound)],
                       capture_output=True, text=True, env=env, timeout=3000)
    try:
        r = json.loads(p.stdout.strip().splitlines()[-1])
    except Exception:
        return {"name": "bounded", "backend": "bounded-native-enumeration", "obligations": [
            {"name": "BOUNDED/_extract_packet_parts", "status": "unknown", "detail": (p.stdout + p.stderr)[-400:]}]}
    ok = not r["bad"]
    return {"name": "bounded", "backend": "bounded-native-enumeration(NOT a proof)", "bounded": True,
            "obligations": [{"name": "BOUNDED/_extract_packet_parts-returns-the-three-fields(token strings <= %d, %d cases)" % (bound, r["cases"]),
                             "status": "proved" if ok else "refuted", "detail": json.dumps(r["bad"][:3]),
                             "witness": r["bad"][:3], "confirmed": not ok}],
            "samples": [{"bounded_cases": r["cases"], "bound_tokens": bound}]}


# =============================================================== C11 / C12 combinations
FACADE_KEYS = ["TempUnits", "SetpointG", "DisplayedTempG", "RealSetPointG", "Heating", "CoolingDown", "EconActive",
               "P1", "P2", "P3", "P4", "P5", "BL", "Waterfall", "UdLi", "CP", "PumpRun", "O3", "SwmActive", "Clean", "Purge",
               "SwmRisk", "PackType", "PackConfID", "PackConfRev", "PackConfRel", "ConfigNumber"]


def _item_sig(it):
    s = shape_of(it)
    return (it["pos"], s[0], s[1], s[2], s[3], s[4])


def _facade_projection(cfg, log):
    """everything of a (config, log) table pair the facade code can depend on"""
    items = {}
    for it in cfg.get("items", []):
        items[it["key"]] = it
    for it in log.get("items", []):
        items[it["key"]] = it           # log overrides config, like dict(config, **log)
    rel = set(FACADE_KEYS) | set(cfg.get("output_keys", [])) | set(log.get("user_demand_keys", [])) | set(log.get("error_keys", []))
    sig = []
    for k in sorted(rel):
        sig.append((k, _item_sig(items[k]) if k in items else None))
    return (tuple(cfg.get("output_keys", [])), tuple(log.get("all_device_keys", [])), tuple(log.get("user_demand_keys", [])),
            tuple(log.get("error_keys", [])), tuple(sig))


def c11_all_combos(repo):
    mods = all_modules(repo)
    out = []
    for p in sorted((m for m in mods if m.get("kind") == "pack"), key=lambda m: m["module"]):
        cfgs = sorted((m for m in mods if m.get("kind") == "cfg" and m["platform"] == p["platform"]), key=lambda m: m["file_version"])
        logs = sorted((m for m in mods if m.get("kind") == "log" and m["platform"] == p["platform"]), key=lambda m: m["file_version"])
        for c in cfgs:
            for l in logs:
                out.append({"id": "%s-c%d-l%d" % (p["platform"], c["file_version"], l["file_version"]), "platform": p["platform"],
                            "cfg": c["file_version"], "log": l["file_version"],
                            "example": "%s cfg %d log %d" % (p["platform"], c["file_version"], l["file_version"]),
                            "_proj": hashlib.sha1(repr(_facade_projection(c, l)).encode()).hexdigest()})
    return out


def c11_representatives(repo):
    """one combination per class of identical facade-relevant table projection (keys, shapes AND positions of every
    item the facade reads): combinations in one class execute the facade code identically for every block"""
    seen = {}
    for c in c11_all_combos(repo):
        e = seen.setdefault(c["_proj"], dict(c, members=0))
        e["members"] += 1
    out = sorted(seen.values(), key=lambda c: c["id"])
    for c in out:
        c["example"] += " (stands for %d combinations with identical facade-relevant tables)" % c["members"]
    return out


def c11_quick(repo):
    """quick tier: one combination per distinct key structure (which outputs / devices / demands / facade items exist),
    ignoring positions and label lists; the thorough tier runs every class of c11_representatives"""
    mods = {m["module"]: m for m in all_modules(repo)}
    seen = {}
    for c in c11_representatives(repo):
        cfg = mods["%s-cfg-%d" % (c["platform"], c["cfg"])]
        log = mods["%s-log-%d" % (c["platform"], c["log"])]
        keys = set(it["key"] for it in cfg["items"]) | set(it["key"] for it in log["items"])
        sig = (tuple(cfg.get("output_keys", [])), tuple(log.get("all_device_keys", [])), tuple(log.get("user_demand_keys", [])),
               tuple(sorted(k for k in FACADE_KEYS if k in keys)), len(log.get("error_keys", [])) > 0)
        seen.setdefault(sig, c)
    return sorted(seen.values(), key=lambda c: c["id"])


# ============================================================ C02: fields of one table are disjoint
def _field_bits(pos, length, mask):
    """absolute bit positions (byte*8 + bit-in-byte) covered by a big-endian field"""
    out = set()
    for bit in range(8 * length):
        if (mask >> bit) & 1:
            out.add((pos + (length - 1 - bit // 8)) * 8 + bit % 8)
    return out


def c02_overlap_ground(repo, tier):
    """'...so no other item changes': within one table (config items, resp. log items) the bit fields of distinct
    items are pairwise disjoint.  Pairs that overlap in the audited tables are known findings keyed by the two item names."""
    d = derived_layouts(repo)
    obs = []
    n_pairs = 0
    for m in all_modules(repo):
        fields = []
        for it in m.get("items", []):
            dl = d[item_shape_key(it)]
            length = dl["length"]
            bp = it.get("bitpos")
            mask = (dl["bitmask"] << bp) if bp is not None else (256 ** length - 1)
            if isinstance(it["pos"], int):
                fields.append((it["key"], it["pos"], length, _field_bits(it["pos"], length, mask)))
        fields.sort(key=lambda f: f[1])
        bad = {}
        for i in range(len(fields)):
            j = i + 1
            while j < len(fields) and fields[j][1] <= fields[i][1] + fields[i][2] - 1 + 1:
                n_pairs += 1
                if fields[i][3] & fields[j][3]:
                    a, b = sorted([fields[i][0], fields[j][0]])
                    bad.setdefault((a, b), []).append(m["module"])
                j += 1
        for (a, b), mods in sorted(bad.items()):
            obs.append({"name": "%s/fields-disjoint/%s-vs-%s" % (m["module"], a, b), "status": "refuted",
                        "detail": "items %s and %s share bits: writing one changes the other" % (a, b),
                        "witness": {"module": m["module"], "items": [a, b]}, "confirmed": True,
                        "known": "C02:overlap:%s/%s" % (a, b)})
        obs.append({"name": "%s/all-other-item-fields-pairwise-disjoint(%d items)" % (m["module"], len(fields)), "status": "proved"})
    return {"name": "tables", "backend": "ground-eval(ast literal tables + real constructor via pyvc)", "obligations": obs,
            "samples": [{"pairs_of_neighbouring_fields_compared": n_pairs}], "functions": {}}


def c19_parse_bounded(repo, tier):
    """bounded stand-in (never counted as proved): real GeckoSnapshot.parse on generated traffic lines, native"""
    import subprocess
    env = dict(os.environ)
    env["PYTHONPATH"] = os.path.join(repo, "src")
    verif = os.path.dirname(os.path.dirname(os.path.abspath(__file__)))
    p = subprocess.run([os.environ.get("PYVC_NATIVE_PY", "/venv/bin/python"), os.path.join(verif, "native", "c19_parse_bounded.py")]
                       + (["full"] if tier == "thorough" else []), capture_output=True, text=True, env=env, timeout=3000)
    try:
        r = json.loads(p.stdout.strip().splitlines()[-1])
    except Exception:
        return {"name": "bounded", "backend": "bounded-native-enumeration", "bounded": True, "obligations": [
            {"name": "BOUNDED/traffic-line-parse", "status": "unknown", "detail": (p.stdout + p.stderr)[-400:]}]}
    obs = [{"name": "BOUNDED/traffic-line-parses-back-to-the-payload(%d payloads of 1-2 bytes)" % r["cases"],
            "status": "proved" if r["n_bad"] == 0 else "refuted", "detail": json.dumps(r["bad"][:3]), "witness": r["bad"][:3],
            "confirmed": r["n_bad"] > 0}]
    for k, n in sorted(r.get("known", {}).items()):
        obs.append({"name": "BOUNDED/known:%s(%d payloads)" % (k, n), "status": "refuted", "known": k, "confirmed": True, "detail": k})
    return {"name": "bounded", "backend": "bounded-native-enumeration(NOT a proof)", "bounded": True, "obligations": obs,
            "samples": [{"bounded_cases": r["cases"]}]}


_C19_NATIVE = {}


def _c19_native(repo):
    import subprocess
    if repo in _C19_NATIVE:
        return _C19_NATIVE[repo]
    env = dict(os.environ)
    env["PYTHONPATH"] = os.path.join(repo, "src")
    verif = os.path.dirname(os.path.dirname(os.path.abspath(__file__)))
    p = subprocess.run([os.environ.get("PYVC_NATIVE_PY", "/venv/bin/python"), os.path.join(verif, "native", "c19_files_and_writer.py"), repo],
                       capture_output=True, text=True, env=env, timeout=3000)
    try:
        r = json.loads(p.stdout.strip().splitlines()[-1])
    except Exception:
        r = {"error": (p.stdout + p.stderr)[-600:]}
    _C19_NATIVE[repo] = r
    return r


def c19_shipped_files_ground(repo, tier):
    """GROUND: the 34 shipped snapshot files are a finite closed set, enumerated completely through the real parser and
    simulator loader (native execution: regular expressions / file iteration are outside the verifier)"""
    r = _c19_native(repo)
    if "error" in r:
        return {"name": "files", "backend": "ground-native-enumeration", "obligations": [
            {"name": "every-shipped-snapshot-parses-and-loads", "status": "unknown", "detail": r["error"]}]}
    a = r["A"]
    ok = a["n_bad"] == 0 and a["files"] > 0
    return {"name": "files", "backend": "ground-native-enumeration(all shipped snapshot files, real parser + simulator loader)",
            "obligations": [{"name": "every-shipped-snapshot-parses-to-1024-bytes-and-the-simulator-holds-them-with-its-tables(%d files, each twice in one process)" % a["files"],
                             "status": "proved" if ok else "refuted", "detail": json.dumps(a["bad"][:3]), "witness": a["bad"][:3],
                             "confirmed": not ok}],
            "samples": [{"files": a["files"]}]}


def c19_writer_parser_bounded(repo, tier):
    """bounded stand-in (never counted as proved): GeckoShell.do_snapshot -> log file -> GeckoSnapshot.parse_log_file, native"""
    r = _c19_native(repo)
    if "error" in r:
        return {"name": "writer", "backend": "bounded-native-enumeration", "bounded": True, "obligations": [
            {"name": "BOUNDED/writer-parser-round-trip", "status": "unknown", "detail": r["error"]}]}
    b = r["B"]
    ok = b["n_bad"] == 0 and b["cases"] > 0
    return {"name": "writer", "backend": "bounded-native-enumeration(NOT a proof)", "bounded": True,
            "obligations": [{"name": "BOUNDED/snapshot-written-by-the-shell-parses-back(%d platform x config x log cases, 6 blocks, 4 names)" % b["cases"],
                             "status": "proved" if ok else "refuted", "detail": json.dumps(b["bad"][:3]), "witness": b["bad"][:3],
                             "confirmed": not ok}],
            "samples": [{"bounded_cases": b["cases"]}]}


def c14_presentation_ground(repo, tier):
    """GROUND: the presentation clause over its whole finite domain (65536 words x 2 units), real accessor, native"""
    import subprocess
    env = dict(os.environ)
    env["PYTHONPATH"] = os.path.join(repo, "src")
    verif = os.path.dirname(os.path.dirname(os.path.abspath(__file__)))
    p = subprocess.run([os.environ.get("PYVC_NATIVE_PY", "/venv/bin/python"), os.path.join(verif, "native", "c14_exhaustive.py")],
                       capture_output=True, text=True, env=env, timeout=3000)
    try:
        r = json.loads(p.stdout.strip().splitlines()[-1])
    except Exception:
        return {"name": "domain", "backend": "ground-native-enumeration", "obligations": [
            {"name": "every-word-presented-exactly", "status": "unknown", "detail": (p.stdout + p.stderr)[-400:]}]}
    ok = r["n_bad"] == 0 and r["cases"] == 131072
    return {"name": "domain", "backend": "ground-native-enumeration(all 65536 words x 2 units, real accessor, IEEE doubles of CPython)",
            "obligations": [{"name": "every-stored-word-is-presented-as-raw/18-or-(raw+320)/10-and-written-back-as-the-same-word(%d cases)" % r["cases"],
                             "status": "proved" if ok else "refuted", "detail": json.dumps(r["bad"][:3]), "witness": r["bad"][:3],
                             "confirmed": not ok}],
            "samples": [{"cases": r["cases"]}]}


def c17_device_state_shapes(repo):
    """shapes of the items that report whether a pump-class device / blower runs (state keys of GeckoConstants.DEVICES)"""
    keys = ("P1", "P2", "P3", "P4", "P5", "BL", "Waterfall")
    shapes = {}
    for m in all_modules(repo):
        for it in m.get("items", []):
            if it["key"] in keys and it["cls"] in ("GeckoBoolStructAccessor", "GeckoEnumStructAccessor"):
                sh = shape_of(it)
                e = shapes.setdefault(sh, {"example": "%s:%s" % (m["module"], it["key"]), "raw": it, "count": 0})
                e["count"] += 1
    out = []
    for sh in sorted(shapes, key=repr):
        e = shapes[sh]
        it = e["raw"]
        out.append({"cls": sh[0], "bitpos": sh[1], "items": list(sh[2]) if sh[2] is not None else None, "items_raw": it.get("items"),
                    "size": sh[3], "maxitems": sh[4], "readonly": sh[5], "rw": it["rw"], "count": e["count"], "example": e["example"],
                    "id": hashlib.sha1(repr(sh).encode()).hexdigest()[:10]})
    return out


C14_TEMPERATURE_KEYS = ["SetpointG", "MinSetpointG", "MaxSetpointG", "RhWaterTemp", "RealSetPointG", "DisplayedTempG", "OTActSetpointG",
                        "DisplayedTemp_G", "RH_WaterTemp", "RH_TriacTemp", "RhTriacTemp", "Prog1SetpointG", "Prog2SetpointG", "UserSetpointG",
                        "RoomTempG", "K1000TempG", "ShowerValveTempC"]


def c14_temp_items_ground(repo, tier):
    """GROUND over all table modules: every temperature item (the 17 keys the audited tables declare as temperatures, and any
    key some table declares as one) is a GeckoTempStructAccessor wherever it appears -- so it is presented in degrees on
    every pack"""
    obs = []
    n = 0
    declared = set(C14_TEMPERATURE_KEYS)
    mods = all_modules(repo)
    for m in mods:
        for it in m.get("items", []):
            if it["cls"] == "GeckoTempStructAccessor":
                declared.add(it["key"])
    bad = []
    for m in mods:
        for it in m.get("items", []):
            if it["key"] in declared:
                n += 1
                if it["cls"] != "GeckoTempStructAccessor":
                    bad.append({"module": m["module"], "key": it["key"], "declared_as": it["cls"]})
    obs.append({"name": "temperature-items-are-temperature-accessors-in-every-table(%d items, %d keys)" % (n, len(declared)),
                "status": "proved" if not bad and n > 0 else "refuted", "detail": json.dumps(bad[:5]), "witness": bad[:5], "confirmed": bool(bad)})
    return {"name": "tables", "backend": "ground-eval(ast literal tables)", "obligations": obs, "samples": [{"items": n}]}


def c02_shape_kinds(repo):
    """quick-tier sample of the accessor shapes: one per (class, has bit position, size, has MaxItems, label-count class) --
    the code paths of the accessor distinguish nothing else; the thorough tier runs every shape"""
    seen = {}
    for s in c02_all_nontemp_shapes(repo):
        n = len(s["items"]) if s.get("items") is not None else -1
        k = (s["cls"], s["bitpos"] is None, s["size"], s["maxitems"] is None, 0 if n < 0 else 1 if n <= 2 else 2 if n <= 4 else 3 if n <= 8 else 4)
        seen.setdefault(k, s)
    return sorted(seen.values(), key=lambda s: s["id"])


def _pinned_subset(repo, name, what, keep_item, keep_field):
    """the pinned-layout comparison of C18 restricted to the table data ONE other property depends on (so that a change of
    that data is reported under that property too): items selected by keep_item(key), module-level fields by keep_field(name)"""
    obs = []
    if not os.path.exists(PINNED):
        return {"name": name, "backend": "ground-eval(pinned layout)", "obligations": [
            {"name": "pinned/layout-file-present", "status": "unknown", "detail": "tables/pinned_layout.json missing"}]}
    pinned = json.load(open(PINNED))
    cur = layout_record(repo)
    diffs = []
    n = 0
    for mod, rec in sorted(pinned["modules"].items()):
        c = cur.get(mod)
        if c is None:
            diffs.append("%s: module removed" % mod)
            continue
        for k, v in rec.items():
            if k != "items" and keep_field(k) and json.loads(json.dumps(c.get(k))) != v:
                diffs.append("%s: %s: %r -> %r" % (mod, k, v, c.get(k)))
        for key, irec in rec["items"].items():
            if not keep_item(key):
                continue
            n += 1
            ci = c["items"].get(key)
            if ci is None:
                diffs.append("%s: item %s removed" % (mod, key))
            elif json.loads(json.dumps(ci)) != irec:
                diffs.append("%s: item %s: %r -> %r" % (mod, key, irec, ci))
    obs.append({"name": "%s-of-every-published-table-unchanged(%d items)" % (what, n), "status": "proved" if not diffs and n > 0 else "refuted",
                "detail": "; ".join(diffs[:4]), "witness": diffs[:10], "confirmed": bool(diffs)})
    return {"name": name, "backend": "ground-eval(ast literal tables + real constructor via pyvc, vs pinned layout)", "obligations": obs,
            "samples": [{"items_compared": n}]}


def c12_wiring_tables_ground(repo, tier):
    """C12: the output items (their label lists decide what 'wired to a device' means), the device / user-demand key lists"""
    return _pinned_subset(repo, "wiring-tables", "output-items-and-device-lists",
                          lambda k: k.startswith("Out") or k.startswith("Ud") or k in ("P1", "P2", "P3", "P4", "P5", "BL", "Waterfall"),
                          lambda f: f in ("output_keys", "all_device_keys", "user_demand_keys"))


def c13_command_tables_ground(repo, tier):
    """C13: the items device commands write (user demands, economy, temperature unit, set point)"""
    return _pinned_subset(repo, "command-tables", "command-items",
                          lambda k: k.startswith("Ud") or k in ("EconActive", "TempUnits", "SetpointG"),
                          lambda f: False)


def c17_tables_native_ground(repo, tier):
    """GROUND (native): every switch history of length <= 3 leaves exactly the published table in the live configuration object,
    read through CPython's own attribute lookup (dataclass fields, inheritance), and wakes the sleeper"""
    import subprocess
    env = dict(os.environ)
    env["PYTHONPATH"] = os.path.join(repo, "src")
    verif = os.path.dirname(os.path.dirname(os.path.abspath(__file__)))
    p = subprocess.run([os.environ.get("PYVC_NATIVE_PY", "/venv/bin/python"), os.path.join(verif, "native", "c17_tables_native.py")],
                       capture_output=True, text=True, env=env, timeout=600)
    try:
        r = json.loads(p.stdout.strip().splitlines()[-1])
    except Exception:
        return {"name": "native-tables", "backend": "ground-native-enumeration", "obligations": [
            {"name": "published-table-installed-after-every-switch", "status": "unknown", "detail": (p.stdout + p.stderr)[-400:]}]}
    ok = r["n_bad"] == 0 and r["switches"] > 0
    return {"name": "native-tables", "backend": "ground-native-enumeration(all switch histories of length <= 3, CPython attribute lookup)",
            "obligations": [{"name": "published-table-installed-after-every-switch(%d switches)" % r["switches"],
                             "status": "proved" if ok else "refuted", "detail": json.dumps(r["bad"][:3]), "witness": r["bad"][:3], "confirmed": not ok}],
            "samples": [{"switches": r["switches"]}]}
