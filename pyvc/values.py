"""Symbolic values of pyvc and the arithmetic / byte-string operations on them.

Integers are *mathematical* (z3 Int) -- exactly Python's unbounded ints, so there is
no overflow to discharge.  Bit operations are reduced to div/mod arithmetic when one
operand is a concrete mask / shift (all uses in geckolib), with a "possible bits"
over-approximation that lets `a | b` become `a + b` when the operands provably cannot
share a set bit.  Anything else is an UNSUPPORTED error (exit 2), never a guess.
"""
import z3


class Unsupported(Exception):
    """Construct outside the supported subset: the check is undecided (exit 2)."""


class Sym:
    __slots__ = ()

    def __bool__(self):
        raise Unsupported("native truth test on a symbolic value: %r" % (self,))

    def __eq__(self, other):
        raise Unsupported("native == on a symbolic value")

    def __ne__(self, other):
        raise Unsupported("native != on a symbolic value")

    __hash__ = object.__hash__


class SymBool(Sym):
    __slots__ = ("e",)

    def __init__(self, e):
        self.e = e

    def __repr__(self):
        return "SymBool(%s)" % (self.e,)


class SymInt(Sym):
    """e: z3 Int (or Real for clock values).  bits: python int mask over-approximating
    the set bits when the value is known non-negative, else None.  bv: optional
    (z3 BitVec, signed) twin equal to the value, used for int->float conversion."""

    __slots__ = ("e", "bits", "bv")

    def __init__(self, e, bits=None, bv=None):
        self.e = e
        self.bits = bits
        self.bv = bv

    @property
    def is_real(self):
        return self.e.sort() == z3.RealSort()

    def __repr__(self):
        return "SymInt(%s)" % (self.e,)


class SymFloat(Sym):
    __slots__ = ("e",)

    def __init__(self, e):
        self.e = e

    def __repr__(self):
        return "SymFloat(%s)" % (self.e,)


FP64 = z3.Float64()
RNE = z3.RNE()
RTZ = z3.RTZ()


def mk_bool(e):
    if isinstance(e, bool):
        return e
    e = z3.simplify(e)
    if z3.is_true(e):
        return True
    if z3.is_false(e):
        return False
    return SymBool(e)


def mk_int(e, bits=None, bv=None):
    if isinstance(e, int):
        return e
    s = z3.simplify(e)
    if z3.is_int_value(s):
        return s.as_long()
    return SymInt(e, bits, bv)


def zb(v):
    """to z3 Bool"""
    if isinstance(v, SymBool):
        return v.e
    if isinstance(v, bool):
        return z3.BoolVal(v)
    if isinstance(v, SymInt):
        return v.e != 0
    if isinstance(v, int):
        return z3.BoolVal(v != 0)
    raise Unsupported("cannot use %r as a boolean term" % (v,))


def zi(v):
    """to z3 arithmetic term"""
    if isinstance(v, SymInt):
        return v.e
    if isinstance(v, bool):
        return z3.IntVal(1 if v else 0)
    if isinstance(v, int):
        return z3.IntVal(v)
    if isinstance(v, SymBool):
        return z3.If(v.e, z3.IntVal(1), z3.IntVal(0))
    if isinstance(v, float):
        return z3.RealVal(repr(v))
    if isinstance(v, z3.ArithRef):
        return v
    raise Unsupported("cannot use %r as an integer term" % (v,))


def is_numlike(v):
    return isinstance(v, (int, SymInt, SymBool)) and not isinstance(v, str)


def bits_of(v):
    if isinstance(v, z3.ExprRef):
        return None
    if isinstance(v, bool):
        return 1 if v else 0
    if isinstance(v, int):
        return v if v >= 0 else None
    if isinstance(v, SymInt):
        return v.bits
    if isinstance(v, SymBool):
        return 1
    return None


def _mask_up(b):
    """smallest 2^k-1 >= b"""
    if b is None:
        return None
    return (1 << b.bit_length()) - 1


def bv64(v):
    """64-bit signed bit-vector twin of v (exact), or None"""
    if isinstance(v, bool):
        return z3.BitVecVal(int(v), 64)
    if isinstance(v, int):
        return z3.BitVecVal(v, 64) if -(2 ** 62) < v < 2 ** 62 else None
    if isinstance(v, SymInt) and v.bv is not None:
        t, signed = v.bv
        n = t.size()
        if n == 64:
            return t if signed else None
        return z3.SignExt(64 - n, t) if signed else z3.ZeroExt(64 - n, t)
    return None


def _small_twin(v):
    """twin usable in +,-,* with small constants without 64-bit overflow"""
    if isinstance(v, SymInt) and v.bv is not None and (v.bv[0].size() <= 32 or v.bv[1]):
        # 64-bit signed twins only arise from int(float) whose side obligation bounds |x| < 2**62
        return bv64(v)
    return None


def int_add(a, b):
    ta, tb = _small_twin(a), _small_twin(b)
    tw = None
    if ta is not None and isinstance(b, int) and abs(b) < 2 ** 40:
        tw = (ta + z3.BitVecVal(b, 64), True)
    elif tb is not None and isinstance(a, int) and abs(a) < 2 ** 40:
        tw = (tb + z3.BitVecVal(a, 64), True)
    r = _int_add(a, b)
    if tw is not None and isinstance(r, SymInt):
        r = SymInt(r.e, r.bits, tw)
    return r


def _int_add(a, b):
    ba, bb = bits_of(a), bits_of(b)
    bits = None
    if ba is not None and bb is not None:
        if ba & bb == 0:
            bits = ba | bb
        else:
            bits = _mask_up(_mask_up(ba) + _mask_up(bb))
    return mk_int(zi(a) + zi(b), bits)


def int_sub(a, b):
    ta = _small_twin(a)
    r = mk_int(zi(a) - zi(b))
    if ta is not None and isinstance(b, int) and abs(b) < 2 ** 40 and isinstance(r, SymInt):
        r = SymInt(r.e, r.bits, (ta - z3.BitVecVal(b, 64), True))
    return r


def int_mul(a, b):
    ba, bb = bits_of(a), bits_of(b)
    bits = None
    if isinstance(b, int) and not isinstance(a, int):
        a, b, ba, bb = b, a, bb, ba
    if isinstance(a, int) and a > 0 and a & (a - 1) == 0 and bb is not None:
        bits = bb << (a.bit_length() - 1)
    elif ba is not None and bb is not None:
        bits = _mask_up(_mask_up(ba) * _mask_up(bb))
    return mk_int(zi(a) * zi(b), bits)


def int_floordiv(a, b):
    """Python floor division; caller has excluded b == 0."""
    if isinstance(b, int) and b > 0:
        # z3 div is Euclidean: for positive divisor it is floor division
        ba = bits_of(a)
        bits = None
        if ba is not None:
            bits = _mask_up(ba) // b
            bits = _mask_up(bits)
            if b & (b - 1) == 0:
                bits = ba >> (b.bit_length() - 1)
        return mk_int(zi(a) / b, bits)
    A, B = zi(a), zi(b)
    # floor(a/b) for any sign of b: euclid div differs when b < 0 and remainder != 0
    q = A / B
    return mk_int(z3.If(z3.And(B < 0, A % B != 0), q + 1, q))


def int_mod(a, b):
    if isinstance(b, int) and b > 0:
        bits = b - 1 if b & (b - 1) == 0 else _mask_up(b - 1)
        ba = bits_of(a)
        if ba is not None and b & (b - 1) == 0:
            bits = ba & (b - 1)
        return mk_int(zi(a) % b, bits)
    A, B = zi(a), zi(b)
    r = A % B  # euclid: 0 <= r < |B|
    return mk_int(z3.If(z3.And(B < 0, r != 0), r + B, r))


def int_shl(a, k):
    if not isinstance(k, int):
        raise Unsupported("shift by a symbolic amount")
    if k < 0:
        raise Unsupported("negative shift")
    return int_mul(a, 1 << k)


def int_shr(a, k):
    if not isinstance(k, int):
        raise Unsupported("shift by a symbolic amount")
    return int_floordiv(a, 1 << k)


def _runs(m):
    """contiguous runs [(lo, width)] of set bits of non-negative m"""
    out = []
    i = 0
    while m >> i:
        if (m >> i) & 1:
            j = i
            while (m >> j) & 1:
                j += 1
            out.append((i, j - i))
            i = j
        else:
            i += 1
    return out


def int_and(a, b):
    if isinstance(a, int) and not isinstance(b, int):
        a, b = b, a
    if isinstance(b, bool):
        b = int(b)
    if isinstance(b, int):
        # a symbolic, b concrete mask.  x & m == x mod 2^n for m = 2^n-1 holds for
        # every Python int x (infinite two's complement).
        if b >= 0:
            ba = bits_of(a)
            if ba is not None and ba & ~b == 0:
                return a  # mask keeps every possible bit
            total = 0
            first = True
            for lo, w in _runs(b):
                part = int_mul(int_mod(int_floordiv(a, 1 << lo), 1 << w), 1 << lo)
                total = part if first else int_add(total, part)
                first = False
            if first:
                return 0
            if isinstance(total, SymInt):
                nb = b if ba is None else (b & ba)
                total = SymInt(total.e, nb)
            return total
        # negative mask: x & m = x - (x & ~m), ~m >= 0
        cleared = int_and(a, ~b)
        r = int_sub(a, cleared)
        ba = bits_of(a)
        if isinstance(r, SymInt) and ba is not None:
            r = SymInt(r.e, ba & b & _mask_up(ba))
        return r
    ba, bb = bits_of(a), bits_of(b)
    if ba is not None and bb is not None and ba & bb == 0:
        return 0
    raise Unsupported("bitwise & of two symbolic integers with overlapping bits")


def int_or(a, b):
    ba, bb = bits_of(a), bits_of(b)
    if ba is not None and bb is not None and ba & bb == 0:
        r = int_add(a, b)
        if isinstance(r, SymInt):
            r = SymInt(r.e, ba | bb)
        return r
    if isinstance(a, int) and not isinstance(b, int):
        a, b = b, a
    if isinstance(b, int) and b >= 0:
        # a | m = (a & ~m) + m
        return int_add(int_and(a, ~b), b)
    raise Unsupported("bitwise | of symbolic integers whose bits may overlap")


def int_xor(a, b):
    ba, bb = bits_of(a), bits_of(b)
    if ba is not None and bb is not None and ba & bb == 0:
        return int_or(a, b)
    raise Unsupported("bitwise ^ on symbolic integers")


def int_invert(a):
    return mk_int(-zi(a) - 1)


def int_neg(a):
    return mk_int(-zi(a))


def int_pow(a, b):
    if isinstance(b, int) and 0 <= b <= 8:
        r = 1
        for _ in range(b):
            r = int_mul(r, a)
        return r
    raise Unsupported("** with symbolic operands")


def cmp_op(op, a, b):
    if (isinstance(a, SymInt) and a.bv is not None) or (isinstance(b, SymInt) and b.bv is not None):
        ta, tb = bv64(a), bv64(b)
        if ta is not None and tb is not None:
            if op == "<":
                return mk_bool(ta < tb)
            if op == "<=":
                return mk_bool(ta <= tb)
            if op == ">":
                return mk_bool(ta > tb)
            if op == ">=":
                return mk_bool(ta >= tb)
            if op == "==":
                return mk_bool(ta == tb)
            if op == "!=":
                return mk_bool(ta != tb)
    A, B = zi(a), zi(b)
    if op == "<":
        return mk_bool(A < B)
    if op == "<=":
        return mk_bool(A <= B)
    if op == ">":
        return mk_bool(A > B)
    if op == ">=":
        return mk_bool(A >= B)
    if op == "==":
        return mk_bool(A == B)
    if op == "!=":
        return mk_bool(A != B)
    raise Unsupported(op)


def b_and(*xs):
    cs = []
    for x in xs:
        if x is True:
            continue
        if x is False:
            return False
        cs.append(zb(x))
    if not cs:
        return True
    return mk_bool(z3.And(*cs) if len(cs) > 1 else cs[0])


def b_or(*xs):
    cs = []
    for x in xs:
        if x is False:
            continue
        if x is True:
            return True
        cs.append(zb(x))
    if not cs:
        return False
    return mk_bool(z3.Or(*cs) if len(cs) > 1 else cs[0])


def b_not(x):
    if isinstance(x, bool):
        return not x
    return mk_bool(z3.Not(zb(x)))


def b_implies(a, b):
    return b_or(b_not(a), b)


def ite(c, a, b):
    """value-level if-then-else for ints / bools (c symbolic or concrete)"""
    if isinstance(c, bool):
        return a if c else b
    if isinstance(a, (bool, SymBool)) and isinstance(b, (bool, SymBool)):
        return mk_bool(z3.If(zb(c), zb(a), zb(b)))
    if is_numlike(a) and is_numlike(b):
        ba, bb = bits_of(a), bits_of(b)
        bits = (ba | bb) if (ba is not None and bb is not None) else None
        return mk_int(z3.If(zb(c), zi(a), zi(b)), bits)
    if isinstance(a, (SymFloat, float)) and isinstance(b, (SymFloat, float)):
        return SymFloat(z3.If(zb(c), zf(a), zf(b)))
    raise Unsupported("ite over %r / %r" % (type(a), type(b)))


# ----------------------------------------------------------------------------- floats
def zf(v):
    if isinstance(v, SymFloat):
        return v.e
    if isinstance(v, bool):
        return z3.FPVal(1.0 if v else 0.0, FP64)
    if isinstance(v, float):
        return z3.FPVal(v, FP64)
    if isinstance(v, int):
        if abs(v) < 2 ** 53:
            return z3.FPVal(float(v), FP64)
        raise Unsupported("large int to float")
    if isinstance(v, SymInt):
        if v.bv is not None:
            bvv, signed = v.bv
            if signed:
                return z3.fpSignedToFP(RNE, bvv, FP64)
            return z3.fpUnsignedToFP(RNE, bvv, FP64)
        raise Unsupported(
            "int->float conversion of a symbolic integer without a bit-vector twin"
        )
    raise Unsupported("cannot use %r as float" % (v,))


def f_bin(op, a, b):
    A, B = zf(a), zf(b)
    if op == "+":
        return SymFloat(z3.fpAdd(RNE, A, B))
    if op == "-":
        return SymFloat(z3.fpSub(RNE, A, B))
    if op == "*":
        return SymFloat(z3.fpMul(RNE, A, B))
    if op == "/":
        return SymFloat(z3.fpDiv(RNE, A, B))
    raise Unsupported("float op " + op)


def f_cmp(op, a, b):
    A, B = zf(a), zf(b)
    if op == "<":
        return mk_bool(z3.fpLT(A, B))
    if op == "<=":
        return mk_bool(z3.fpLEQ(A, B))
    if op == ">":
        return mk_bool(z3.fpGT(A, B))
    if op == ">=":
        return mk_bool(z3.fpGEQ(A, B))
    if op == "==":
        return mk_bool(z3.fpEQ(A, B))
    if op == "!=":
        return mk_bool(z3.Not(z3.fpEQ(A, B)))
    raise Unsupported(op)


# ------------------------------------------------------------------------------ bytes
class SymBytes(Sym):
    """Byte string: `length` (python int or z3 Int) and element function `get`.

    get(i) takes a python int or a z3 Int term and returns a python int or a z3 Int
    term in 0..255.  Range facts for array-backed leaves are registered lazily with
    the current path (FACTS hook) for every index term that is actually read."""

    __slots__ = ("length", "_get", "elems")

    def __init__(self, length, get, elems=None):
        self.length = length
        self._get = get
        self.elems = elems  # python list of elements when the length is concrete & small

    def get(self, i):
        if isinstance(i, SymInt):
            i = i.e
        return self._get(i)

    def __repr__(self):
        return "SymBytes(len=%s)" % (self.length,)

    @staticmethod
    def from_elems(elems):
        elems = list(elems)
        n = len(elems)

        def get(i):
            if isinstance(i, int):
                return elems[i]
            r = zi(elems[n - 1]) if n else z3.IntVal(0)
            for k in range(n - 2, -1, -1):
                r = z3.If(i == k, zi(elems[k]), r)
            return r

        return SymBytes(n, get, elems)


_CONST_ARR = {}


def const_array(b):
    key = bytes(b)
    a = _CONST_ARR.get(key)
    if a is None:
        # most common value as default keeps the store chain short
        from collections import Counter

        dflt = Counter(key).most_common(1)[0][0] if key else 0
        a = z3.K(z3.IntSort(), z3.IntVal(dflt))
        for i, v in enumerate(key):
            if v != dflt:
                a = z3.Store(a, i, v)
        _CONST_ARR[key] = a
    return a


def as_symbytes(b):
    if isinstance(b, SymBytes):
        return b
    if isinstance(b, (bytes, bytearray)):
        b = bytes(b)

        def get(i, b=b):
            if isinstance(i, int):
                return b[i]
            return z3.Select(const_array(b), i)

        return SymBytes(len(b), get, list(b) if len(b) <= 64 else None)
    raise Unsupported("not a byte string: %r" % (b,))


FACTS = []  # callbacks: fact(z3 Bool) registered by the engine for the current path


def _fact(f):
    for cb in FACTS:
        cb(f)


def leaf_bytes(name, length):
    arr = z3.Array(name, z3.IntSort(), z3.IntSort())

    def get(i):
        t = z3.Select(arr, i)
        _fact(z3.And(t >= 0, t <= 255))
        return t

    return SymBytes(length, get)


def blen(b):
    return len(b) if isinstance(b, (bytes, bytearray)) else b.length


def zmin(a, b):
    if isinstance(a, int) and isinstance(b, int):
        return min(a, b)
    return mk_int(z3.If(zi(a) <= zi(b), zi(a), zi(b)))


def zmax(a, b):
    if isinstance(a, int) and isinstance(b, int):
        return max(a, b)
    return mk_int(z3.If(zi(a) >= zi(b), zi(a), zi(b)))


def _norm_index(i, n, default):
    """Python slice-bound normalisation against length n"""
    if i is None:
        return default
    if isinstance(i, int) and isinstance(n, int):
        if i < 0:
            return max(i + n, 0)
        return min(i, n)
    if isinstance(i, int):
        if i >= 0:
            return zmin(i, n)
        return zmax(int_add(n, i), 0)
    I, N = zi(i), zi(n)
    return mk_int(z3.If(I < 0, z3.If(I + N < 0, 0, I + N), z3.If(I < N, I, N)))


def bytes_slice(b, lo, hi):
    b = as_symbytes(b)
    n = b.length
    lo = _norm_index(lo, n, 0)
    hi = _norm_index(hi, n, n)
    ln = int_sub(hi, lo)
    if isinstance(ln, int):
        ln = max(ln, 0)
    else:
        ln = zmax(ln, 0)
    if isinstance(lo, int) and isinstance(ln, int):
        if b.elems is not None:
            return SymBytes.from_elems(b.elems[lo : lo + ln])
        if ln <= 64:
            return SymBytes.from_elems([b.get(lo + k) for k in range(ln)])
    lo_t = lo

    def get(i, b=b, lo_t=lo_t):
        if isinstance(i, int) and isinstance(lo_t, int):
            return b.get(lo_t + i)
        return b.get(zi(lo_t) + zi(i) if not isinstance(i, int) else zi(lo_t) + i)

    return SymBytes(ln if isinstance(ln, int) else ln.e, get)


def bytes_concat(a, b):
    a, b = as_symbytes(a), as_symbytes(b)
    if isinstance(a.length, int) and a.length == 0:
        return b
    if isinstance(b.length, int) and b.length == 0:
        return a
    if a.elems is not None and b.elems is not None and len(a.elems) + len(b.elems) <= 4096:
        return SymBytes.from_elems(a.elems + b.elems)
    la = a.length

    def get(i, a=a, b=b, la=la):
        if isinstance(i, int) and isinstance(la, int):
            return a.get(i) if i < la else b.get(i - la)
        I = zi(i)
        LA = zi(la)
        x = a.get(I)
        y = b.get(I - LA)
        return z3.If(I < LA, zi(x), zi(y))

    ln = int_add(a.length if isinstance(a.length, int) else SymInt(a.length),
                 b.length if isinstance(b.length, int) else SymInt(b.length))
    return SymBytes(ln if isinstance(ln, int) else ln.e, get)


def bytes_index(b, i):
    b = as_symbytes(b)
    r = b.get(i)
    if isinstance(r, SymInt):
        return r if r.bits is not None else SymInt(r.e, 255, r.bv)
    if isinstance(r, SymBool):
        return mk_int(zi(r), 1)
    return mk_int(r, 255) if not isinstance(r, int) else r


_QCOUNT = [0]


def bytes_eq(a, b):
    if isinstance(a, (bytes, bytearray)) and isinstance(b, (bytes, bytearray)):
        return bytes(a) == bytes(b)
    a, b = as_symbytes(a), as_symbytes(b)
    la, lb = a.length, b.length
    if isinstance(la, int) and isinstance(lb, int):
        if la != lb:
            return False
        if la <= 128:
            return b_and(*[cmp_op("==", a.get(k), b.get(k)) for k in range(la)])
    n = la if isinstance(la, int) else lb
    if isinstance(n, int) and n <= 128:
        return b_and(
            cmp_op("==", mk_int(zi(la)) if not isinstance(la, int) else la,
                   mk_int(zi(lb)) if not isinstance(lb, int) else lb),
            *[cmp_op("==", a.get(k), b.get(k)) for k in range(n)]
        )
    _QCOUNT[0] += 1
    k = z3.Int("_q%d" % _QCOUNT[0])
    body = z3.Implies(z3.And(k >= 0, k < zi(la)), zi(a.get(k)) == zi(b.get(k)))
    return mk_bool(z3.And(zi(la) == zi(lb), z3.ForAll([k], body)))


def bytes_startswith(b, prefix):
    if not isinstance(prefix, (bytes, bytearray)):
        raise Unsupported("startswith with symbolic prefix")
    b = as_symbytes(b)
    n = len(prefix)
    if isinstance(b.length, int) and b.length < n:
        return False
    return b_and(
        cmp_op(">=", mk_int(zi(b.length)), n),
        *[cmp_op("==", b.get(k), prefix[k]) for k in range(n)]
    )


def bytes_endswith(b, suffix):
    if not isinstance(suffix, (bytes, bytearray)):
        raise Unsupported("endswith with symbolic suffix")
    b = as_symbytes(b)
    n = len(suffix)
    L = b.length
    if isinstance(L, int) and L < n:
        return False
    conds = [cmp_op(">=", mk_int(zi(L)), n)]
    for k in range(n):
        idx = (L - n + k) if isinstance(L, int) else (L - (n - k))
        conds.append(cmp_op("==", b.get(idx), suffix[k]))
    return b_and(*conds)


class SymStr(Sym):
    """latin-1 string: code points == bytes"""

    __slots__ = ("b",)

    def __init__(self, b):
        self.b = b

    def __repr__(self):
        return "SymStr(%r)" % (self.b,)


class SymFmt(Sym):
    """a format string with one symbolic integer hole: prefix + str(n) + suffix"""

    __slots__ = ("prefix", "n", "suffix")

    def __init__(self, prefix, n, suffix):
        self.prefix, self.n, self.suffix = prefix, n, suffix


class SymChoice(Sym):
    """values[idx] for a symbolic index into a concrete list of plain Python values
    (enum labels).  Path invariant: 0 <= idx < len(values)."""

    __slots__ = ("idx", "values")
    _intern = {}

    def __init__(self, idx, values):
        self.idx = idx
        self.values = list(values)

    def __repr__(self):
        return "SymChoice(%s of %d)" % (self.idx, len(self.values))

    @classmethod
    def ident(cls, v):
        k = (type(v).__name__, v)
        if k not in cls._intern:
            cls._intern[k] = len(cls._intern)
        return cls._intern[k]

    def id_term(self):
        ids = [self.ident(v) for v in self.values]
        t = z3.IntVal(ids[-1])
        for k in range(len(ids) - 2, -1, -1):
            t = z3.If(self.idx == k, z3.IntVal(ids[k]), t)
        return t

    def eq_const(self, c):
        hits = []
        for k, v in enumerate(self.values):
            try:
                same = type(v) is type(c) and v == c or (isinstance(v, (int, float)) and isinstance(c, (int, float)) and not isinstance(v, bool) and not isinstance(c, bool) and v == c)
            except Exception:
                same = False
            if same:
                hits.append(self.idx == k)
        if not hits:
            return False
        return mk_bool(z3.Or(*hits) if len(hits) > 1 else hits[0])

    def map(self, f):
        """apply a total native function to every alternative"""
        res = [f(v) for v in self.values]
        return choice_of(self.idx, res)


def choice_of(idx, res):
    first = res[0]
    if all(type(r) is type(first) and r == first for r in res):
        return first
    if all(isinstance(r, bool) for r in res):
        hits = [idx == k for k, r in enumerate(res) if r]
        return mk_bool(z3.Or(*hits) if len(hits) > 1 else hits[0])
    if all(isinstance(r, int) and not isinstance(r, bool) for r in res):
        t = z3.IntVal(res[-1])
        for k in range(len(res) - 2, -1, -1):
            t = z3.If(idx == k, z3.IntVal(res[k]), t)
        lo = min(res)
        return mk_int(t, (1 << max(res).bit_length()) - 1 if lo >= 0 else None)
    return SymChoice(idx, res)
