"""Models of Python builtins / stdlib pieces used by geckolib.

Rule: when the receiver and every argument are plain concrete data the *real* CPython
operation is executed (partial evaluation); a model is only used for symbolic operands.
"""
import ast
import struct as _struct
import z3

from .values import *  # noqa
from .interp import (
    Module, ClassObj, Instance, FuncObj, BoundMethod, NativeFn, NativeMethod, PyRaise,
    MISSING, is_plain, is_concrete, PropertyObj, StaticMethodObj, LocalsProxy, PathEnd,
)


class Opaque:
    is_opaque = True

    def __init__(self, name):
        self.name = name

    def sym_call(self, I, args, kw):
        # only side-effect-free library objects whose results never reach a contract
        if self.name.startswith(("logging.", "logger", "typing.", "TypeVar")):
            return Opaque(self.name + "()")
        raise Unsupported("call of unmodelled %s" % self.name)

    def __repr__(self):
        return "<opaque %s>" % self.name


def opaque(name):
    return Opaque(name)


NATIVE_EXC = (IndexError, KeyError, ValueError, TypeError, OverflowError, ZeroDivisionError,
              AttributeError, UnicodeError, _struct.error)


def reraise_native(I, e):
    name = type(e).__name__
    if isinstance(e, _struct.error):
        raise PyRaise(make_struct_error(I, *e.args))
    if isinstance(e, UnicodeError):
        name = "ValueError"
    if name not in I.builtins:
        name = "Exception"
    I.raise_(name, *[a for a in e.args if is_plain(a)])


def make_struct_error(I, *args):
    inst = Instance(I.stubs["struct"].ns["error"])
    inst.attrs["args"] = tuple(args)
    return inst


# ================================================================================ binop
def binop(I, op, a, b, inplace=False):
    t = type(op)
    if isinstance(a, SymChoice):
        a = concretize(I, a)
    if isinstance(b, SymChoice):
        b = concretize(I, b)
    if inplace and isinstance(a, list) and t is ast.Add:
        a.extend(I.iterate_concrete(b))
        return a
    if isinstance(a, Instance) and a.cls.is_intenum:
        a = a.attrs["value"]
    if isinstance(b, Instance) and b.cls.is_intenum:
        b = b.attrs["value"]
    if not isinstance(a, Sym) and not isinstance(b, Sym) and is_plain(a) and is_plain(b):
        try:
            return _NATIVE_BIN[t](a, b)
        except NATIVE_EXC as e:
            reraise_native(I, e)
    if t is ast.Add and (isinstance(a, GList) or isinstance(b, GList)) and isinstance(a, (list, GList)) and isinstance(b, (list, GList)):
        ia = a.items if isinstance(a, GList) else [(True, x) for x in a]
        ib = b.items if isinstance(b, GList) else [(True, x) for x in b]
        return GList(ia + ib)
    # sequences holding symbolic members
    if t is ast.Add and isinstance(a, list) and isinstance(b, list):
        return a + b
    if t is ast.Add and isinstance(a, tuple) and isinstance(b, tuple):
        return a + b
    if t is ast.Mult and isinstance(a, (list, tuple)) and isinstance(b, int):
        return a * b
    if t is ast.Add and isinstance(a, (bytes, SymBytes)) and isinstance(b, (bytes, SymBytes)):
        return bytes_concat(a, b)
    if t is ast.Add and isinstance(a, (str, SymStr)) and isinstance(b, (str, SymStr)):
        return SymStr(bytes_concat(_strbytes(I, a), _strbytes(I, b)))
    if t is ast.Mod and isinstance(a, str):
        raise Unsupported("%-formatting with symbolic operand")
    fa = isinstance(a, (float, SymFloat))
    fb = isinstance(b, (float, SymFloat))
    if (fa or fb) and getattr(I, "real_floats", False) and not isinstance(a, SymFloat) and not isinstance(b, SymFloat) \
            and isinstance(a, (int, float, SymInt, SymBool)) and isinstance(b, (int, float, SymInt, SymBool)):
        # exact-rational model of float arithmetic, enabled per harness (its use is justified by a separately proved
        # IEEE lemma and every counterexample is replayed natively)
        return _real_bin(I, t, a, b)
    if fa or fb:
        if not isinstance(a, (int, float, SymInt, SymFloat, SymBool)) or not isinstance(b, (int, float, SymInt, SymFloat, SymBool)):
            I.raise_("TypeError", "unsupported operand type(s)")
        if (isinstance(a, SymInt) and a.is_real) or (isinstance(b, SymInt) and b.is_real):
            return _real_bin(I, t, a, b)
        sym = {ast.Add: "+", ast.Sub: "-", ast.Mult: "*", ast.Div: "/"}.get(t)
        if sym is None:
            raise Unsupported("float operator %s" % t.__name__)
        if sym == "/":
            z = f_cmp("==", b, 0.0)
            if I.decide(z, "float-div-zero"):
                I.raise_("ZeroDivisionError", "float division by zero")
        return f_bin(sym, a, b)
    if isinstance(a, (int, SymInt, SymBool)) and isinstance(b, (int, SymInt, SymBool)):
        if (isinstance(a, SymInt) and a.is_real) or (isinstance(b, SymInt) and b.is_real):
            return _real_bin(I, t, a, b)
        if t is ast.Add:
            return int_add(a, b)
        if t is ast.Sub:
            return int_sub(a, b)
        if t is ast.Mult:
            return int_mul(a, b)
        if t in (ast.FloorDiv, ast.Mod):
            if not isinstance(b, int) or b == 0:
                if I.decide(cmp_op("==", b, 0), "div-zero"):
                    I.raise_("ZeroDivisionError", "integer division or modulo by zero")
            if not isinstance(b, int):
                # symbolic divisor: split the small quotients off so the terms stay linear
                if I.decide(cmp_op(">", b, 0), "divisor-positive"):
                    if I.decide(b_and(cmp_op(">=", a, 0), cmp_op("<", a, b)), "quotient==0"):
                        return 0 if t is ast.FloorDiv else a
                    if I.decide(b_and(cmp_op(">=", a, b), cmp_op("<", a, int_mul(2, b))), "quotient==1"):
                        return 1 if t is ast.FloorDiv else int_sub(a, b)
            return int_floordiv(a, b) if t is ast.FloorDiv else int_mod(a, b)
        if t is ast.LShift:
            return int_shl(a, b)
        if t is ast.RShift:
            return int_shr(a, b)
        if t is ast.BitAnd:
            if isinstance(a, (bool, SymBool)) and isinstance(b, (bool, SymBool)):
                return b_and(a, b)
            return int_and(_i(a), _i(b))
        if t is ast.BitOr:
            if isinstance(a, (bool, SymBool)) and isinstance(b, (bool, SymBool)):
                return b_or(a, b)
            return int_or(_i(a), _i(b))
        if t is ast.BitXor:
            return int_xor(_i(a), _i(b))
        if t is ast.Pow:
            return int_pow(a, b)
        if t is ast.Div:
            # true division int/int -> float.  Exact when the divisor is a power of two
            # and |a| < 2**53 (IEEE-754: scaling by a power of two is exact barring
            # underflow); modelled as an exact rational.
            if isinstance(b, int) and b > 0 and b & (b - 1) == 0:
                I.ctx.prove_side("int/2^k exact: |x| < 2**53", b_and(cmp_op("<", a, 2 ** 53), cmp_op(">", a, -(2 ** 53))))
                return SymInt(z3.ToReal(zi(a)) / b)
            if I.decide(cmp_op("==", b, 0), "div-zero"):
                I.raise_("ZeroDivisionError", "division by zero")
            return f_bin("/", a, b)
    if t is ast.Mult and isinstance(a, (bytes, str)) and isinstance(b, SymInt):
        raise Unsupported("sequence repetition by symbolic count")
    if a is None or b is None:
        I.raise_("TypeError", "unsupported operand type(s) for %s: %s and %s" % (t.__name__, type(a).__name__, type(b).__name__))
    if isinstance(a, (str, bytes, SymBytes, SymStr)) != isinstance(b, (str, bytes, SymBytes, SymStr)) and t is ast.Add:
        I.raise_("TypeError", "can only concatenate like types")
    raise Unsupported("binary %s on %s / %s" % (t.__name__, type(a).__name__, type(b).__name__))


def _i(v):
    if isinstance(v, SymBool):
        return mk_int(zi(v), 1)
    if isinstance(v, bool):
        return int(v)
    return v


def _real_bin(I, t, a, b):
    A, B = _zr(a), _zr(b)
    if t is ast.Add:
        return SymInt(A + B)
    if t is ast.Sub:
        return SymInt(A - B)
    if t is ast.Mult:
        return SymInt(A * B)
    if t is ast.Div:
        if not isinstance(b, (int, float)) or b == 0:
            if I.decide(mk_bool(B == 0), "div-zero"):
                I.raise_("ZeroDivisionError", "division by zero")
        return SymInt(A / B)
    raise Unsupported("real-valued operator %s" % t.__name__)


def _zr(v):
    if isinstance(v, SymInt):
        return z3.ToReal(v.e) if not v.is_real else v.e
    if isinstance(v, float):
        return z3.RealVal(repr(v))
    if isinstance(v, SymFloat):
        raise Unsupported("mixing clock reals with IEEE floats")
    return z3.ToReal(zi(v))


import operator as _op

_NATIVE_BIN = {
    ast.Add: _op.add, ast.Sub: _op.sub, ast.Mult: _op.mul, ast.Div: _op.truediv,
    ast.FloorDiv: _op.floordiv, ast.Mod: _op.mod, ast.Pow: _op.pow, ast.LShift: _op.lshift,
    ast.RShift: _op.rshift, ast.BitAnd: _op.and_, ast.BitOr: _op.or_, ast.BitXor: _op.xor,
}


def order(I, sym, a, b):
    if isinstance(a, SymChoice):
        a = concretize(I, a)
    if isinstance(b, SymChoice):
        b = concretize(I, b)
    if isinstance(a, Instance) and a.cls.is_intenum:
        a = a.attrs["value"]
    if isinstance(b, Instance) and b.cls.is_intenum:
        b = b.attrs["value"]
    if not isinstance(a, Sym) and not isinstance(b, Sym):
        if is_plain(a) and is_plain(b):
            try:
                return {"<": _op.lt, "<=": _op.le, ">": _op.gt, ">=": _op.ge}[sym](a, b)
            except TypeError as e:
                reraise_native(I, e)
        if isinstance(a, (tuple, list)) and isinstance(b, (tuple, list)):
            raise Unsupported("ordering of sequences with symbolic members")
        I.raise_("TypeError", "'%s' not supported between instances of '%s' and '%s'" % (sym, _tn(a), _tn(b)))
    num = (int, float, SymInt, SymFloat, SymBool)
    if not isinstance(a, num) or not isinstance(b, num):
        I.raise_("TypeError", "'%s' not supported between instances of '%s' and '%s'" % (sym, _tn(a), _tn(b)))
    if isinstance(a, (float, SymFloat)) or isinstance(b, (float, SymFloat)):
        if (isinstance(a, SymInt) and a.is_real) or (isinstance(b, SymInt) and b.is_real):
            A, B = _zr(a), _zr(b)
            return mk_bool({"<": A < B, "<=": A <= B, ">": A > B, ">=": A >= B}[sym])
        return f_cmp(sym, a, b)
    return cmp_op(sym, a, b)


def _tn(v):
    if isinstance(v, Instance):
        return v.cls.name
    if v is None:
        return "NoneType"
    if isinstance(v, SymInt):
        return "int"
    if isinstance(v, SymBytes):
        return "bytes"
    return type(v).__name__


# ============================================================================ subscript
def subscript(I, obj, k):
    if isinstance(k, tuple) and len(k) == 4 and k[0] == "__slice__":
        _, lo, hi, step = k
        if step is not None:
            if is_plain(obj) and is_plain((lo, hi, step)):
                return obj[lo:hi:step]
            raise Unsupported("slice step")
        if isinstance(obj, (bytes, SymBytes)):
            if isinstance(obj, bytes) and is_plain((lo, hi)):
                return obj[lo:hi]
            return bytes_slice(obj, lo, hi)
        if isinstance(obj, (list, tuple, str)):
            if is_plain((lo, hi)):
                return obj[lo:hi]
            raise Unsupported("slice of %s with symbolic bounds" % type(obj).__name__)
        if isinstance(obj, SymStr):
            return SymStr(bytes_slice(obj.b, lo, hi))
        if hasattr(obj, "sym_slice"):
            return obj.sym_slice(I, lo, hi)
        raise Unsupported("slice of %r" % type(obj).__name__)
    if isinstance(k, Instance) and k.cls.is_intenum:
        k = k.attrs["value"]
    if isinstance(k, SymChoice):
        k = concretize(I, k)
    if isinstance(obj, SymChoice):
        obj = concretize(I, obj)
    if isinstance(obj, dict):
        if isinstance(k, Sym):
            raise Unsupported("symbolic dict key lookup")
        try:
            return obj[k]
        except KeyError:
            I.raise_("KeyError", k)
        except TypeError as e:
            reraise_native(I, e)
    if isinstance(obj, (list, tuple, str, bytes, range)):
        if isinstance(k, bool):
            k = int(k)
        if isinstance(k, int):
            try:
                return obj[k]
            except IndexError:
                I.raise_("IndexError", "%s index out of range" % type(obj).__name__)
        if isinstance(k, (SymInt, SymBool)):
            n = len(obj)
            if isinstance(obj, bytes):
                # symbolic index into concrete bytes
                if I.decide(b_or(cmp_op("<", k, -n), cmp_op(">=", k, n)), "index-range"):
                    I.raise_("IndexError", "index out of range")
                kk = ite(cmp_op("<", k, 0), int_add(k, n), k)
                return bytes_index(obj, kk)
            if not isinstance(obj, str) and n > 1 and all(is_plain(x) and not isinstance(x, (list, dict, tuple)) for x in obj):
                if I.decide(b_or(cmp_op("<", k, -n), cmp_op(">=", k, n)), "index-range"):
                    I.raise_("IndexError", "%s index out of range" % type(obj).__name__)
                kk = ite(cmp_op("<", k, 0), int_add(k, n), k)
                if isinstance(kk, int):
                    return obj[kk]
                return choice_of(kk.e, list(obj))
            # case split over the concrete sequence (python semantics incl. negatives)
            for j in range(n):
                if I.decide(cmp_op("==", k, j), "index==%d" % j):
                    return obj[j]
            for j in range(1, n + 1):
                if I.decide(cmp_op("==", k, -j), "index==-%d" % j):
                    return obj[-j]
            I.raise_("IndexError", "%s index out of range" % type(obj).__name__)
        I.raise_("TypeError", "indices must be integers")
    if isinstance(obj, SymBytes):
        if isinstance(k, (int, SymInt)):
            n = obj.length
            if I.decide(b_or(cmp_op("<", k, int_neg(n) if isinstance(n, int) else mk_int(-n)),
                             cmp_op(">=", k, n if isinstance(n, int) else mk_int(n))), "index-range"):
                I.raise_("IndexError", "index out of range")
            if isinstance(k, int) and k >= 0:
                return bytes_index(obj, k)
            nn = n if isinstance(n, int) else mk_int(n)
            kk = ite(cmp_op("<", k, 0), int_add(k, nn), k)
            return bytes_index(obj, kk)
    if hasattr(obj, "sym_getitem"):
        return obj.sym_getitem(I, k)
    if isinstance(obj, Instance):
        f = obj.cls.lookup("__getitem__")
        if f is not MISSING:
            return I.call(BoundMethod(obj, f), [k], {})
    if obj is None:
        I.raise_("TypeError", "'NoneType' object is not subscriptable")
    if isinstance(obj, (ClassObj, Opaque)):
        return obj  # typing generics: List[int] etc.
    raise Unsupported("subscript of %r" % type(obj).__name__)


# ============================================================================== strings
def _strbytes(I, s):
    if isinstance(s, SymStr):
        return s.b
    try:
        return as_symbytes(s.encode("latin-1"))
    except UnicodeEncodeError:
        raise Unsupported("non latin-1 text mixed with symbolic text")


def to_str(I, v, spec=""):
    """str()/format() of a value"""
    if isinstance(v, Instance):
        if v.cls.is_enum and not spec:
            if v.cls.is_intenum:
                return str(v.attrs["value"])
            return "%s.%s" % (v.cls.name, v.attrs["name"])
        if v.cls.is_intenum:
            return format(v.attrs["value"], spec)
        for nm in ("__str__", "__repr__"):
            f = v.cls.lookup(nm)
            if f is not MISSING and isinstance(f, FuncObj):
                r = I.call(BoundMethod(v, f), [], {})
                return format(r, spec) if spec else r
        if v.cls.is_exc:
            a = v.attrs.get("args", ())
            if len(a) == 1:
                return to_str(I, a[0])
            return str(tuple(a)) if a else ""
        return "<%s object>" % v.cls.qualname
    if isinstance(v, SymChoice):
        try:
            return v.map(lambda x: format(x, spec))
        except (ValueError, TypeError):
            return to_str(I, concretize(I, v), spec)
    if isinstance(v, SymStr) and not spec:
        return v                      # str(s) / "%s" of a str is the str itself
    if isinstance(v, Sym):
        return SymText(v, spec)
    if isinstance(v, (list, tuple, dict)) and not is_plain(v):
        return SymText(v, spec)
    if isinstance(v, (ClassObj, FuncObj, BoundMethod, Module, NativeFn, Opaque)):
        return repr(v)
    try:
        return format(v, spec)
    except (ValueError, TypeError) as e:
        reraise_native(I, e)


class SymText(Sym):
    """the text rendering of a symbolic value: opaque, only carried around / compared by
    identity of its source.  Enough for __str__/monitor totality (C11) where the text
    itself is not specified."""

    __slots__ = ("src", "spec", "parts")

    def __init__(self, src, spec="", parts=None):
        self.src = src
        self.spec = spec
        self.parts = parts

    def __repr__(self):
        return "SymText(%r)" % (self.src,)

    def flat(self):
        return list(self.parts) if self.parts is not None else [self]

    def sym_eq(self, I, other):
        """structural equality: same literal pieces, same format specs, equal sources.
        Sound for integer holes because int formatting with one spec is injective."""
        if isinstance(other, str):
            if self.parts is None and isinstance(self.src, (SymInt, SymBool)):
                return False if not _could_be_int_text(other, self.spec) else _int_text_eq(I, self, other)
            raise Unsupported("comparison of symbolic text with a literal")
        if not isinstance(other, SymText):
            return False
        a, b = self.flat(), other.flat()
        if len(a) != len(b):
            raise Unsupported("comparison of differently shaped symbolic texts")
        conds = []
        for x, y in zip(a, b):
            if isinstance(x, str) or isinstance(y, str):
                if x != y:
                    raise Unsupported("comparison of differently shaped symbolic texts")
                continue
            if x.spec != y.spec or x.parts is not None or y.parts is not None:
                raise Unsupported("comparison of differently shaped symbolic texts")
            conds.append(I.py_eq(x.src, y.src))
        return b_and(*conds)


def _could_be_int_text(text, spec):
    try:
        int(text)
        return True
    except ValueError:
        return False


def _int_text_eq(I, st, text):
    n = int(text)
    try:
        ok = format(n, st.spec) == text
    except ValueError:
        ok = False
    if not ok:
        return False
    return I.py_eq(st.src, n)


def m_text_split(I, obj, args, kw):
    sep = args[0] if args else None
    if not isinstance(sep, str) or not isinstance(obj, SymText):
        raise Unsupported("split of symbolic text")
    parts = obj.flat()
    out = [[]]
    for p in parts:
        if isinstance(p, str):
            pieces = p.split(sep)
            out[-1].append(pieces[0]) if pieces[0] else None
            for x in pieces[1:]:
                out.append([x] if x else [])
        else:
            # axiom: the rendering of an integer contains no separator (sep is not a digit / sign)
            if not isinstance(p.src, (SymInt, SymBool)) or any(ch.isdigit() or ch in "+- " for ch in sep):
                raise Unsupported("split of symbolic text at a separator that may occur in a hole")
            out[-1].append(p)
    return [join_text(x) if x else "" for x in out]


def joined_str(I, e, frame):
    parts = []
    for v in e.values:
        if isinstance(v, ast.Constant):
            parts.append(v.value)
        else:
            parts.append(format_value(I, v, frame))
    return join_text(parts)


def join_text(parts):
    if all(isinstance(p, str) for p in parts):
        return "".join(parts)
    if len(parts) == 1:
        return parts[0]
    flat = []
    for p in parts:
        if isinstance(p, SymText) and p.parts is not None:
            flat.extend(p.parts)
        else:
            flat.append(p)
    return SymText(None, "", flat)


def format_value(I, e, frame):
    v = I.eval(e.value, frame)
    spec = ""
    if e.format_spec is not None:
        spec = I.eval(e.format_spec, frame)
        if not isinstance(spec, str):
            raise Unsupported("symbolic format spec")
    if e.conversion == ord("r"):
        v = py_repr(I, v)
    elif e.conversion == ord("s"):
        v = to_str(I, v)
    if isinstance(v, (SymInt, SymBool)) and spec:
        # validity of the spec is checked on a concrete witness of the type
        try:
            format(0, spec)
        except ValueError as ex:
            reraise_native(I, ex)
        return SymText(v, spec)
    if isinstance(v, (SymFloat,)) and spec:
        try:
            format(0.0, spec)
        except ValueError as ex:
            reraise_native(I, ex)
        return SymText(v, spec)
    if isinstance(v, (SymText, SymStr)) and spec:
        try:
            format("", spec)
        except ValueError as ex:
            reraise_native(I, ex)
        return SymText(v, spec)
    if v is None and spec:
        I.raise_("TypeError", "unsupported format string passed to NoneType.__format__")
    return to_str(I, v, spec)


def py_repr(I, v):
    if isinstance(v, Instance):
        f = v.cls.lookup("__repr__")
        if f is not MISSING and isinstance(f, FuncObj):
            return I.call(BoundMethod(v, f), [], {})
        return "<%s object>" % v.cls.qualname
    if isinstance(v, Sym) or not is_plain(v):
        return SymText(v, "!r")
    return repr(v)


def str_format(I, s, args, kwargs):
    if all(is_plain(a) for a in args) and all(is_plain(a) for a in kwargs.values()):
        try:
            return s.format(*args, **kwargs)
        except (IndexError, KeyError, ValueError) as e:
            reraise_native(I, e)
    # symbolic hole(s): support simple "{}" / "{0}" fields with one symbolic int -> SymFmt
    import string

    parts = []
    auto = 0
    for lit, field, spec, conv in string.Formatter().parse(s):
        if lit:
            parts.append(lit)
        if field is None:
            continue
        if field == "":
            idx = auto
            auto += 1
            val = args[idx] if idx < len(args) else MISSING
        elif field.isdigit():
            val = args[int(field)] if int(field) < len(args) else MISSING
        else:
            val = kwargs.get(field, MISSING)
        if val is MISSING:
            I.raise_("IndexError", "Replacement index out of range")
        if isinstance(val, Sym) or not is_plain(val):
            parts.append(SymText(val, spec or ""))
        else:
            parts.append(to_str(I, val, spec or ""))
    sym = [p for p in parts if not isinstance(p, str)]
    if len(sym) == 1 and isinstance(sym[0].src, SymInt) and not sym[0].spec:
        i = parts.index(sym[0])
        return SymFmt("".join(parts[:i]), sym[0].src, "".join(parts[i + 1:]))
    return join_text(parts)


# ======================================================================= native getattr
def native_getattr(I, obj, name):
    if isinstance(obj, I.TypeObj) and obj.name == "dict" and name == "fromkeys":
        return NativeFn("dict.fromkeys", dict_fromkeys)
    if isinstance(obj, I.TypeObj) and obj.name == "int" and name == "from_bytes":
        def _from_bytes(I_, args, kw):
            b = args[0]
            order = args[1] if len(args) > 1 else kw.get("byteorder", "big")
            if kw.get("signed"):
                raise Unsupported("int.from_bytes(signed=True)")
            if isinstance(b, bytes):
                return int.from_bytes(b, order)
            n = b.length if isinstance(b, SymBytes) else None
            if isinstance(b, SymBytes) and not isinstance(n, int):
                for cand in (0, 1, 2, 3, 4):
                    if I_.decide(cmp_op("==", mk_int(n), cand), "from_bytes-length"):
                        n = cand
                        break
            if isinstance(b, SymBytes) and isinstance(n, int) and order in ("big", "little"):
                idx = range(n) if order == "big" else range(n - 1, -1, -1)
                v = 0
                for i in idx:
                    v = int_add(binop(I_, ast.Mult(), v, 256), bytes_index(b, i))
                return v
            raise Unsupported("int.from_bytes of a symbolic-length byte string")
        return NativeFn("int.from_bytes", _from_bytes)
    if isinstance(obj, Opaque):
        return Opaque(obj.name + "." + name)
    if isinstance(obj, SymInt) and name in ("real",):
        return obj
    return MISSING


def call_native_method(I, obj, name, args, kwargs):
    # exact CPython behaviour for concrete data
    if not isinstance(obj, Sym) and is_plain(obj) and all(is_plain(a) for a in args) and not kwargs:
        if isinstance(obj, str) and name == "format":
            return str_format(I, obj, args, kwargs)
        try:
            r = getattr(obj, name)(*args)
        except NATIVE_EXC as e:
            reraise_native(I, e)
        if isinstance(obj, dict) and name in ("keys", "values", "items"):
            r = list(r)
        return r
    if hasattr(obj, "sym_method"):
        return obj.sym_method(I, name, args, kwargs)
    if isinstance(obj, SymChoice):
        if all(is_plain(a) for a in args) and not kwargs:
            def f(v):
                return getattr(v, name)(*args)
            try:
                return obj.map(f)
            except NATIVE_EXC + (AttributeError,):
                pass
        return call_native_method(I, concretize(I, obj), name, args, kwargs)
    args = [concretize(I, a) if isinstance(a, SymChoice) else a for a in args]
    if not isinstance(obj, Sym) and is_plain(obj) and all(is_plain(a) for a in args) and not kwargs:
        return call_native_method(I, obj, name, args, kwargs)
    if isinstance(obj, list) and name == "sort" and not args and set(kwargs) <= {"key", "reverse"}:
        # list.sort(key=f): the key function runs once per element, in order (it may raise -- that is the part modelled);
        # the reordering itself is done by CPython when every key is a concrete value, otherwise it is not modelled
        kf = kwargs.get("key")
        keys = [I.call(kf, [x], {}) if kf is not None else x for x in obj]
        if all(is_plain(k) for k in keys):
            try:
                order = sorted(range(len(obj)), key=lambda i: keys[i], reverse=bool(kwargs.get("reverse", False)))
            except NATIVE_EXC as e:
                reraise_native(I, e)
            obj[:] = [obj[i] for i in order]
            return None
        raise Unsupported("list.sort with symbolic keys")
    key = (_kind(obj), name)
    m = _METHODS.get(key)
    if m is None:
        if isinstance(obj, (list, dict, tuple, set)) and all(not isinstance(a, Sym) for a in args) \
                and name in _SAFE_CONTAINER_METHODS:
            try:
                r = getattr(obj, name)(*args, **kwargs)
            except NATIVE_EXC as e:
                reraise_native(I, e)
            if name in ("keys", "values", "items"):
                r = list(r)
            return r
        raise Unsupported("method %s.%s with symbolic operands" % (_kind(obj), name))
    return m(I, obj, args, kwargs)


_SAFE_CONTAINER_METHODS = {"append", "extend", "clear", "copy", "pop", "insert", "get", "items", "values",
                           "keys", "update", "setdefault", "add", "discard", "popitem", "reverse"}


def concretize(I, ch):
    """case split a SymChoice into one of its concrete alternatives"""
    if not isinstance(ch, SymChoice):
        return ch
    n = len(ch.values)
    for k in range(n - 1):
        if I.ctx.decide(ch.idx == k, "choice"):
            return ch.values[k]
    return ch.values[n - 1]


def _kind(obj):
    if isinstance(obj, (bytes, SymBytes)):
        return "bytes"
    if isinstance(obj, (str, SymStr, SymText, SymFmt)):
        return "str"
    if isinstance(obj, list):
        return "list"
    if isinstance(obj, tuple):
        return "tuple"
    if isinstance(obj, dict):
        return "dict"
    if isinstance(obj, set):
        return "set"
    if isinstance(obj, (int, SymInt)):
        return "int"
    return type(obj).__name__


def m_list_append(I, obj, args, kw):
    obj.append(args[0])


def m_list_index(I, obj, args, kw):
    x = args[0]
    for i, y in enumerate(obj):
        if I.decide(I.py_eq(y, x), "list.index"):
            return i
    I.raise_("ValueError", "value is not in list")


def m_list_remove(I, obj, args, kw):
    i = m_list_index(I, obj, args, kw)
    del obj[i]


def m_list_count(I, obj, args, kw):
    n = 0
    for y in obj:
        n = int_add(n, mk_int(zi(I.py_eq(y, args[0]))))
    return n


def m_bytes_startswith(I, obj, args, kw):
    p = args[0]
    if isinstance(p, tuple):
        return b_or(*[bytes_startswith(obj, x) for x in p])
    return bytes_startswith(obj, p)


def m_bytes_endswith(I, obj, args, kw):
    return bytes_endswith(obj, args[0])


def m_bytes_decode(I, obj, args, kw):
    enc = (args[0] if args else kw.get("encoding", "utf-8")).lower().replace("-", "").replace("_", "")
    if enc not in ("latin1", "iso88591", "l1"):
        raise Unsupported("decode(%s) of symbolic bytes" % enc)
    return SymStr(as_symbytes(obj))


def m_str_encode(I, obj, args, kw):
    enc = (args[0] if args else kw.get("encoding", "utf-8")).lower().replace("-", "").replace("_", "")
    if isinstance(obj, SymStr):
        if enc in ("utf8",):
            # utf-8 of latin-1 text: identical when every code point is ASCII, strictly longer otherwise
            b = obj.b
            q = z3.Int("_qu%d" % I.ctx.next_id())
            ascii_ = z3.ForAll([q], z3.Implies(z3.And(q >= 0, q < zi(b.length)), zi(b.get(q)) < 128))
            j = I.ctx.fresh_int("nonascii_at")
            non = z3.And(zi(j) >= 0, zi(j) < zi(b.length), zi(b.get(zi(j))) >= 128)
            if I.ctx.decide_assume(ascii_, non, "utf8-ascii"):
                return b
            r = I.ctx.fresh_bytes("utf8_bytes")
            I.ctx.add(zi(r.length) > zi(b.length))
            return r
        if enc not in ("latin1", "iso88591", "l1"):
            raise Unsupported("encode(%s) of symbolic text" % enc)
        return obj.b
    raise Unsupported("encode of %r" % (obj,))


def m_bytes_join(I, obj, args, kw):
    items = args[0]
    if hasattr(items, "sym_join"):
        return items.sym_join(I, obj)
    items = I.iterate_concrete(items)
    for x in items:
        if not isinstance(x, (bytes, SymBytes)):
            I.raise_("TypeError", "sequence item: expected a bytes-like object, %s found" % _tn(x))
    if not items:
        return b""
    r = items[0]
    for x in items[1:]:
        if len(obj):
            r = bytes_concat(r, obj)
        r = bytes_concat(r, x)
    return r


def m_str_join(I, obj, args, kw):
    if isinstance(args[0], GList):
        # which elements are present is symbolic: the text is an opaque rendering
        for g, x in args[0].items:
            if not isinstance(x, (str, SymText, SymStr)):
                I.raise_("TypeError", "sequence item: expected str instance, %s found" % _tn(x))
        return SymText(args[0], "join")
    items = I.iterate_concrete(args[0])
    for x in items:
        if not isinstance(x, (str, SymText, SymStr)):
            I.raise_("TypeError", "sequence item: expected str instance, %s found" % _tn(x))
    parts = []
    for i, x in enumerate(items):
        if i:
            parts.append(obj)
        parts.append(x)
    return join_text(parts)


def m_bytes_split(I, obj, args, kw):
    """bytes.split(sep[, maxsplit]) for a 1-byte separator on symbolic bytes."""
    sep = args[0] if args else None
    maxsplit = args[1] if len(args) > 1 else kw.get("maxsplit", -1)
    if not isinstance(sep, bytes) or len(sep) != 1:
        raise Unsupported("split of symbolic bytes with separator %r" % (sep,))
    b = as_symbytes(obj)
    return SymSplit(I, b, sep[0], maxsplit)


class SymSplit(Sym):
    """result of symbolic_bytes.split(sep, maxsplit): number of parts decided lazily.

    first separator position j is introduced with its defining axioms:
      0<=j<len, b[j]==sep, forall i<j. b[i]!=sep      (or: no separator at all)."""

    def __init__(self, I, b, sep, maxsplit):
        self.b, self.sep, self.maxsplit = b, sep, maxsplit
        self.I = I

    def _first(self, I, b, tag):
        """returns None (no sep in b) or position term j"""
        n = b.length
        j = I.ctx.fresh_int("split!" + tag)
        q = z3.Int("_qs%d" % I.ctx.next_id())
        has = z3.And(zi(j) >= 0, zi(j) < zi(n), zi(b.get(zi(j))) == self.sep,
                     z3.ForAll([q], z3.Implies(z3.And(q >= 0, q < zi(j)), zi(b.get(q)) != self.sep)))
        none = z3.ForAll([q], z3.Implies(z3.And(q >= 0, q < zi(n)), zi(b.get(q)) != self.sep))
        if I.ctx.decide_assume(has, none, "split-has-sep"):
            return j
        return None

    def sym_unpack(self, I, n):
        parts = self.parts(I, n + 1)
        if len(parts) != n:
            I.raise_("ValueError", "too many values to unpack (expected %d)" % n if len(parts) > n
                     else "not enough values to unpack (expected %d, got %d)" % (n, len(parts)))
        return parts

    def parts(self, I, limit):
        """materialise up to `limit` parts (list shorter than limit means exact)"""
        out = []
        rest = self.b
        splits = 0
        while len(out) < limit:
            if self.maxsplit is not None and self.maxsplit >= 0 and splits >= self.maxsplit:
                out.append(rest)
                return out
            j = self._first(I, rest, "p%d" % len(out))
            if j is None:
                out.append(rest)
                return out
            out.append(bytes_slice(rest, 0, j))
            rest = bytes_slice(rest, int_add(j, 1), None)
            splits += 1
        return out

    def sym_getitem(self, I, k):
        if not isinstance(k, int) or k < 0:
            raise Unsupported("split()[symbolic]")
        parts = self.parts(I, k + 1)
        if k >= len(parts):
            I.raise_("IndexError", "list index out of range")
        return parts[k]


def m_bytes_rsplit(I, obj, args, kw):
    """bytes.rsplit(sep, 1) for a 1-byte separator on symbolic bytes: split at the LAST separator"""
    sep = args[0] if args else None
    maxsplit = args[1] if len(args) > 1 else kw.get("maxsplit", -1)
    if not isinstance(sep, bytes) or len(sep) != 1 or maxsplit != 1:
        raise Unsupported("rsplit of symbolic bytes other than rsplit(<1 byte>, 1)")
    b = as_symbytes(obj)
    n = b.length
    j = I.ctx.fresh_int("rsplit")
    q = z3.Int("_qr%d" % I.ctx.next_id())
    has = z3.And(zi(j) >= 0, zi(j) < zi(n), zi(b.get(zi(j))) == sep[0],
                 z3.ForAll([q], z3.Implies(z3.And(q > zi(j), q < zi(n)), zi(b.get(q)) != sep[0])))
    none = z3.ForAll([q], z3.Implies(z3.And(q >= 0, q < zi(n)), zi(b.get(q)) != sep[0]))
    if I.ctx.decide_assume(has, none, "rsplit-has-sep"):
        return [bytes_slice(b, 0, j), bytes_slice(b, int_add(j, 1), None)]
    return [b]


def m_dict_get(I, obj, args, kw):
    k = args[0]
    d = args[1] if len(args) > 1 else None
    if isinstance(k, Sym):
        raise Unsupported("dict.get with symbolic key")
    return obj.get(k, d)


def m_str_lower(I, obj, args, kw):
    raise Unsupported("lower() of symbolic text")


def m_fmt_format(I, obj, args, kw):
    raise Unsupported("format on symbolic format string")


def m_int_bit_length(I, obj, args, kw):
    raise Unsupported("bit_length of symbolic int")


_METHODS = {
    ("list", "append"): m_list_append,
    ("list", "index"): m_list_index,
    ("list", "remove"): m_list_remove,
    ("list", "count"): m_list_count,
    ("tuple", "index"): m_list_index,
    ("tuple", "count"): m_list_count,
    ("bytes", "startswith"): m_bytes_startswith,
    ("bytes", "endswith"): m_bytes_endswith,
    ("bytes", "decode"): m_bytes_decode,
    ("bytes", "join"): m_bytes_join,
    ("bytes", "split"): m_bytes_split,
    ("bytes", "rsplit"): m_bytes_rsplit,
    ("str", "encode"): m_str_encode,
    ("str", "split"): m_text_split,
    ("str", "join"): m_str_join,
    ("str", "format"): lambda I, o, a, k: str_format(I, o, a, k),
    ("dict", "get"): m_dict_get,
}


# ============================================================================= builtins
def make_builtins(I):
    B = {}

    def fn(name, wants_frame=False):
        def deco(f):
            n = NativeFn(name, f)
            n.wants_frame = wants_frame
            B[name] = n
            return f
        return deco

    obj = ClassObj.__new__(ClassObj)
    obj.name = "object"; obj.bases = []; obj.ns = {}; obj.module = None; obj.qualname = "object"
    obj.mro = [obj]; obj.is_exc = False; obj.is_enum = False; obj.is_intenum = False; obj.members = None
    B["object"] = obj

    def obj_init(I_, args, kw):
        return None
    obj.ns["__init__"] = NativeFn("object.__init__", obj_init)

    def exc(name, base):
        c = ClassObj(name, [base], {}, None, name)
        c.is_exc = True
        B[name] = c
        return c

    BaseE = ClassObj("BaseException", [obj], {}, None)
    BaseE.is_exc = True
    B["BaseException"] = BaseE

    def exc_init(I_, args, kw):
        args[0].attrs["args"] = tuple(args[1:])
    BaseE.ns["__init__"] = NativeFn("BaseException.__init__", exc_init)
    E = exc("Exception", BaseE)
    exc("KeyboardInterrupt", BaseE)
    exc("SystemExit", BaseE)
    exc("GeneratorExit", BaseE)
    for n in ["TypeError", "ValueError", "RuntimeError", "AssertionError", "AttributeError", "LookupError",
              "ArithmeticError", "OSError", "ImportError", "NameError", "StopIteration", "EOFError", "StopAsyncIteration"]:
        exc(n, E)
    exc("IndexError", B["LookupError"]); exc("KeyError", B["LookupError"])
    exc("ZeroDivisionError", B["ArithmeticError"]); exc("OverflowError", B["ArithmeticError"])
    exc("NotImplementedError", B["RuntimeError"]); exc("RecursionError", B["RuntimeError"])
    exc("ModuleNotFoundError", B["ImportError"]); exc("UnboundLocalError", B["NameError"])
    exc("UnicodeError", B["ValueError"]); exc("UnicodeDecodeError", B["UnicodeError"]); exc("UnicodeEncodeError", B["UnicodeError"])
    exc("TimeoutError", B["OSError"]); exc("ConnectionError", B["OSError"])
    B["IOError"] = B["OSError"]
    B["True"] = True; B["False"] = False; B["None"] = None
    B["NotImplemented"] = Opaque("NotImplemented")
    B["Ellipsis"] = Ellipsis

    # type objects used in isinstance / conversion
    class TypeObj:
        def __init__(self, name):
            self.name = name
        def __repr__(self):
            return "<type %s>" % self.name
        def sym_call(self, I_, args, kw):
            return _convert(I_, self.name, args, kw)

    for t in ["int", "str", "bytes", "float", "bool", "list", "tuple", "dict", "set", "frozenset", "type", "bytearray", "range", "complex"]:
        B[t] = TypeObj(t)
    B["dict"].fromkeys = None
    I.TypeObj = TypeObj

    @fn("len")
    def _len(I_, args, kw):
        v = args[0]
        if isinstance(v, (str, bytes, list, tuple, dict, set, frozenset, range)):
            return len(v)
        if isinstance(v, SymBytes):
            return v.length if isinstance(v.length, int) else mk_int(v.length)
        if isinstance(v, SymStr):
            return _len(I_, [v.b], {})
        if hasattr(v, "sym_len"):
            return v.sym_len(I_)
        if isinstance(v, Instance):
            f = v.cls.lookup("__len__")
            if f is not MISSING:
                return I_.call(BoundMethod(v, f), [], {})
        I_.raise_("TypeError", "object of type '%s' has no len()" % _tn(v))

    @fn("isinstance")
    def _isinstance(I_, args, kw):
        v, t = args
        if isinstance(t, tuple):
            return any(_isinstance(I_, [v, x], {}) for x in t)
        if isinstance(t, ClassObj):
            if isinstance(v, Instance):
                return v.cls.issubclass(t)
            return False
        if isinstance(t, TypeObj):
            n = t.name
            if isinstance(v, SymChoice):
                rs = [_isinstance(I_, [x, t], {}) for x in v.values]
                if all(rs) or not any(rs):
                    return rs[0]
                return _isinstance(I_, [concretize(I_, v), t], {})
            if n == "int":
                return isinstance(v, (int, SymInt, SymBool)) and not (isinstance(v, SymInt) and v.is_real) or \
                    (isinstance(v, Instance) and v.cls.is_intenum)
            if n == "bool":
                return isinstance(v, (bool, SymBool))
            if n == "str":
                return isinstance(v, (str, SymStr, SymText, SymFmt))
            if n == "bytes":
                return isinstance(v, (bytes, SymBytes))
            if n == "float":
                return isinstance(v, (float, SymFloat)) or (isinstance(v, SymInt) and v.is_real)
            if n == "list":
                return isinstance(v, list) or getattr(v, "is_listlike", False)
            if n == "tuple":
                return isinstance(v, tuple)
            if n == "dict":
                return isinstance(v, dict)
            if n == "set":
                return isinstance(v, set)
            return False
        if isinstance(t, Opaque):
            return False
        raise Unsupported("isinstance against %r" % (t,))

    @fn("issubclass")
    def _issubclass(I_, args, kw):
        c, t = args
        if isinstance(t, tuple):
            return any(_issubclass(I_, [c, x], {}) for x in t)
        return isinstance(c, ClassObj) and isinstance(t, ClassObj) and c.issubclass(t)

    @fn("range")
    def _range(I_, args, kw):
        if all(isinstance(a, int) for a in args):
            try:
                return range(*args)
            except ValueError as e:
                reraise_native(I_, e)
        if len(args) == 1:
            return SymRange(0, args[0], 1)
        if len(args) == 2:
            return SymRange(args[0], args[1], 1)
        if not isinstance(args[2], int) or args[2] <= 0:
            raise Unsupported("range with symbolic / non-positive step")
        return SymRange(args[0], args[1], args[2])

    @fn("enumerate")
    def _enumerate(I_, args, kw):
        it = args[0]
        start = args[1] if len(args) > 1 else kw.get("start", 0)
        if hasattr(it, "sym_len"):
            return SymEnumerate(it, start)
        return [(start + i, x) for i, x in enumerate(I_.iterate_concrete(it))]

    @fn("zip")
    def _zip(I_, args, kw):
        return list(zip(*[I_.iterate_concrete(a) for a in args]))

    @fn("reversed")
    def _reversed(I_, args, kw):
        return list(reversed(I_.iterate_concrete(args[0])))

    @fn("sorted")
    def _sorted(I_, args, kw):
        items = I_.iterate_concrete(args[0])
        if is_plain(items) and not kw:
            return sorted(items)
        raise Unsupported("sorted with symbolic members / key")

    def _minmax(I_, args, kw, is_min):
        items = list(args) if len(args) > 1 else I_.iterate_concrete(args[0])
        if not items:
            I_.raise_("ValueError", "min()/max() arg is an empty sequence")
        if is_plain(items):
            return min(items) if is_min else max(items)
        r = items[0]
        for x in items[1:]:
            c = order(I_, "<" if is_min else ">", x, r)
            r = ite(c, x, r)
        return r

    fn("min")(lambda I_, a, k: _minmax(I_, a, k, True))
    fn("max")(lambda I_, a, k: _minmax(I_, a, k, False))

    @fn("abs")
    def _abs(I_, args, kw):
        v = args[0]
        if isinstance(v, SymInt):
            return mk_int(z3.If(v.e >= 0, v.e, -v.e))
        if isinstance(v, SymFloat):
            return SymFloat(z3.fpAbs(v.e))
        return abs(v)

    @fn("sum")
    def _sum(I_, args, kw):
        r = args[1] if len(args) > 1 else 0
        for x in I_.iterate_concrete(args[0]):
            r = binop(I_, ast.Add(), r, x)
        return r

    @fn("any")
    def _any(I_, args, kw):
        for x in I_.iterate_concrete(args[0]):
            if I_.truth(x):
                return True
        return False

    @fn("all")
    def _all(I_, args, kw):
        for x in I_.iterate_concrete(args[0]):
            if not I_.truth(x):
                return False
        return True

    @fn("getattr")
    def _getattr(I_, args, kw):
        if len(args) == 3:
            return I_.getattr_(args[0], args[1], args[2])
        return I_.getattr_(args[0], args[1])

    @fn("setattr")
    def _setattr(I_, args, kw):
        I_.setattr_(args[0], args[1], args[2])

    @fn("hasattr")
    def _hasattr(I_, args, kw):
        try:
            I_.getattr_(args[0], args[1])
            return True
        except PyRaise as e:
            if e.exc.cls.name == "AttributeError":
                return False
            raise

    @fn("callable")
    def _callable(I_, args, kw):
        v = args[0]
        if isinstance(v, (FuncObj, BoundMethod, ClassObj, NativeFn, NativeMethod, StaticMethodObj)):
            return True
        if isinstance(v, Instance):
            return v.cls.lookup("__call__") is not MISSING
        return False

    @fn("dir")
    def _dir(I_, args, kw):
        v = args[0]
        names = set()
        if isinstance(v, Instance):
            names.update(v.attrs.keys())
            v = v.cls
        if isinstance(v, ClassObj):
            for c in v.mro:
                names.update(c.ns.keys())
            names.update(["__doc__", "__module__"])
            return sorted(names)
        raise Unsupported("dir()")

    @fn("id")
    def _id(I_, args, kw):
        return id(args[0])

    @fn("hash")
    def _hash(I_, args, kw):
        if is_plain(args[0]):
            return hash(args[0])
        return id(args[0])

    @fn("repr")
    def _repr(I_, args, kw):
        return py_repr(I_, args[0])

    @fn("format")
    def _format(I_, args, kw):
        return to_str(I_, args[0], args[1] if len(args) > 1 else "")

    @fn("print")
    def _print(I_, args, kw):
        return None

    @fn("iter")
    def _iter(I_, args, kw):
        return I_.iterate_concrete(args[0])

    @fn("round")
    def _round(I_, args, kw):
        if is_plain(args):
            return round(*args)
        raise Unsupported("round of symbolic")

    @fn("divmod")
    def _divmod(I_, args, kw):
        return (binop(I_, ast.FloorDiv(), args[0], args[1]), binop(I_, ast.Mod(), args[0], args[1]))

    def _radix(name, f):
        def g(I_, args, kw):
            v = args[0]
            if isinstance(v, Instance) and v.cls.is_intenum:
                v = v.attrs["value"]
            if isinstance(v, int):
                return f(v)
            if isinstance(v, Sym):
                return SymText(v, name)
            I_.raise_("TypeError", "'%s' object cannot be interpreted as an integer" % _tn(v))
        B[name] = NativeFn(name, g)
    _radix("hex", hex)
    _radix("oct", oct)
    _radix("bin", bin)

    @fn("chr")
    def _chr(I_, args, kw):
        if isinstance(args[0], int):
            return chr(args[0])
        raise Unsupported("chr symbolic")

    @fn("ord")
    def _ord(I_, args, kw):
        if isinstance(args[0], str):
            return ord(args[0])
        raise Unsupported("ord symbolic")

    @fn("vars")
    def _vars(I_, args, kw):
        if isinstance(args[0], Instance):
            return args[0].attrs
        raise Unsupported("vars")

    @fn("super")
    def _super(I_, args, kw):
        from .interp import SuperObj
        return SuperObj(args[0], args[1])

    return B


def _convert(I, tname, args, kw):
    if tname == "type":
        v = args[0]
        if isinstance(v, Instance):
            return v.cls
        m = {int: "int", bool: "bool", str: "str", bytes: "bytes", float: "float", list: "list", tuple: "tuple", dict: "dict"}
        for t, n in m.items():
            if type(v) is t:
                return I.builtins[n]
        if isinstance(v, SymInt):
            return I.builtins["int"]
        raise Unsupported("type() of %r" % (v,))
    if not args:
        return {"int": 0, "str": "", "bytes": b"", "float": 0.0, "bool": False, "list": [], "tuple": (),
                "dict": {}, "set": set(), "frozenset": frozenset()}[tname] if tname != "dict" or not kw else dict(kw)
    v = args[0]
    if isinstance(v, Instance) and v.cls.is_intenum and tname in ("int", "float", "bool", "str"):
        if tname == "str":
            return to_str(I, v)
        v = v.attrs["value"]
    if tname == "int":
        if isinstance(v, (SymInt,)):
            if v.is_real:
                # int() truncates toward zero
                e = v.e
                fl = z3.ToInt(e)
                return mk_int(z3.If(e >= 0, fl, z3.If(z3.ToReal(fl) == e, fl, fl + 1)))
            return v
        if isinstance(v, SymBool):
            return mk_int(zi(v), 1)
        if isinstance(v, SymFloat):
            if I.decide(mk_bool(z3.Or(z3.fpIsNaN(v.e), z3.fpIsInf(v.e))), "int(float)-finite"):
                I.raise_("ValueError", "cannot convert float NaN/inf to integer")
            # |v| < 2**62 is required so the 64-bit conversion equals Python's unbounded int()
            lim = z3.FPVal(2.0 ** 62, FP64)
            I.ctx.prove_side("int(float) fits 64-bit model: |x| < 2**62", mk_bool(z3.fpLT(z3.fpAbs(v.e), lim)))
            bv = z3.fpToSBV(RTZ, v.e, z3.BitVecSort(64))
            return SymInt(z3.BV2Int(bv, is_signed=True), None, (bv, True))
        if isinstance(v, SymText) and v.parts is None and isinstance(v.src, (SymInt, SymBool)) and v.spec in ("", "d", "02", "02d", "2", "03", "3"):
            # axiom: int(format(n, spec)) == n for these specs (validated against CPython each run)
            return v.src if isinstance(v.src, SymInt) else mk_int(zi(v.src), 1)
        if isinstance(v, (SymStr, SymText, SymFmt)):
            raise Unsupported("int() of symbolic text")
        if is_plain(v) and all(is_plain(a) for a in args):
            try:
                return int(*args)
            except (ValueError, TypeError, OverflowError) as e:
                reraise_native(I, e)
        if v is None or isinstance(v, (Instance, list, dict, tuple)):
            I.raise_("TypeError", "int() argument must be a string, a bytes-like object or a real number, not '%s'" % _tn(v))
        raise Unsupported("int(%r)" % (v,))
    if tname == "float":
        if isinstance(v, SymFloat):
            return v
        if isinstance(v, (SymInt, SymBool)):
            if isinstance(v, SymInt) and v.is_real:
                return v
            return SymFloat(zf(v if isinstance(v, SymInt) else mk_int(zi(v), 1)))
        if is_plain(v):
            try:
                return float(v)
            except (ValueError, TypeError, OverflowError) as e:
                reraise_native(I, e)
        if v is None or isinstance(v, (Instance, list, dict, tuple)):
            I.raise_("TypeError", "float() argument must be a string or a real number, not '%s'" % _tn(v))
        raise Unsupported("float(%r)" % (v,))
    if tname == "bool":
        t = v
        if isinstance(t, SymBool):
            return t
        if isinstance(t, SymInt):
            return mk_bool(t.e != 0)
        return I.truth(t)
    if tname == "str":
        if isinstance(v, (bytes, SymBytes)) and len(args) > 1:
            return call_native_method(I, v, "decode", list(args[1:]), kw)
        return to_str(I, v)
    if tname == "bytearray":
        tname = "bytes"       # bytearray is only used as an intermediate of bytes(bytearray(list)) in geckolib
    if tname == "bytes":
        if isinstance(v, (bytes, SymBytes)):
            return v
        if is_plain(v):
            try:
                return bytes(*args)
            except (ValueError, TypeError) as e:
                reraise_native(I, e)
        if isinstance(v, range):
            v = list(v)
        if isinstance(v, (list, tuple)) and is_plain(v):
            try:
                return bytes(v)
            except (ValueError, TypeError) as e:
                reraise_native(I, e)
        if isinstance(v, (list, tuple)):
            for x in v:
                if not isinstance(x, (int, SymInt, SymBool)):
                    I.raise_("TypeError", "'%s' object cannot be interpreted as an integer" % _tn(x))
                if isinstance(x, Sym) and I.decide(b_or(cmp_op("<", x, 0), cmp_op(">", x, 255)), "bytes()-range"):
                    I.raise_("ValueError", "bytes must be in range(0, 256)")
            return SymBytes.from_elems([_i(x) for x in v])
        raise Unsupported("bytes(%r)" % (v,))
    if tname == "list":
        if hasattr(v, "to_list"):
            return v.to_list(I)
        return list(I.iterate_concrete(v))
    if tname == "tuple":
        return tuple(I.iterate_concrete(v))
    if tname == "set" and isinstance(v, GList):
        # set of guarded elements: a guarded collection of the distinct values (iteration order of a real set is
        # unspecified; the model iterates in first-occurrence order)
        d = GDict()
        for g, k in v.items:
            if isinstance(k, Sym):
                raise Unsupported("guarded set with symbolic member")
            d.put(k, g, None)
        return d
    if tname == "set":
        items = I.iterate_concrete(v)
        if is_plain(items):
            return set(items)
        return set(items)
    if tname == "frozenset":
        return frozenset(I.iterate_concrete(v))
    if tname == "dict":
        if isinstance(v, dict):
            d = dict(v)
        else:
            d = {}
            for it in I.iterate_concrete(v):
                k, x = I.unpack(it, 2, False)
                d[k] = x
        d.update(kw)
        return d
    raise Unsupported("conversion %s" % tname)


class SymList(Sym):
    """list of symbolic length: the first `base_len` elements are given by itemfn(j), followed by
    the concretely appended `extra` elements.  `key` identifies the item function (two lists
    with identical keys have the same itemfn)."""
    is_listlike = True

    def __init__(self, base_len, itemfn, key=None):
        self.base_len = base_len
        self.itemfn = itemfn
        self.key = key
        self.extra = []

    def sym_len(self, I):
        return int_add(self.base_len, len(self.extra))

    def sym_item(self, I, k):
        if not self.extra:
            return self.itemfn(k)
        if I.decide(cmp_op("<", k, self.base_len), "symlist-base"):
            return self.itemfn(k)
        for j in range(len(self.extra) - 1):
            if I.decide(cmp_op("==", k, int_add(self.base_len, j)), "symlist-extra"):
                return self.extra[j]
        return self.extra[-1]

    def sym_getitem(self, I, k):
        n = self.sym_len(I)
        if I.decide(b_or(cmp_op("<", k, 0), cmp_op(">=", k, n)), "index-range"):
            I.raise_("IndexError", "list index out of range")
        return self.sym_item(I, k)

    def sym_method(self, I, name, args, kw):
        if name == "append":
            self.extra.append(args[0])
            return None
        if name == "clear":
            self.base_len = 0
            self.extra = []
            return None
        if name == "copy":
            c = SymList(self.base_len, self.itemfn, self.key)
            c.extra = list(self.extra)
            return c
        raise Unsupported("list.%s on a symbolic-length list" % name)

    def truth(self, I):
        return I.truth(I.py_ne(self.sym_len(I), 0))

    def sym_iter(self, I):
        n = self.sym_len(I)
        out = []
        k = 0
        while I.decide(cmp_op("<", k, n), "symlist-unroll"):
            if k > 64:
                raise Unsupported("materialising a symbolic-length list needs an invariant / summary")
            out.append(self.sym_item(I, k))
            k += 1
        return out

    def same_fn(self, other):
        if self.itemfn is other.itemfn:
            return True
        if self.key is None or other.key is None or len(self.key) != len(other.key):
            return False
        for a, b in zip(self.key, other.key):
            if isinstance(a, (int, str)) and isinstance(b, (int, str)):
                if a != b:
                    return False
            elif a is not b:
                return False
        return True

    def sym_eq(self, I, other):
        if isinstance(other, list):
            n = self.sym_len(I)
            if isinstance(n, int):
                if n != len(other):
                    return False
                return b_and(*[I.py_eq(self.sym_item(I, j), other[j]) for j in range(n)])
            if self.extra:
                raise Unsupported("comparison of a symbolic-length list (with appended elements) with a concrete list")
            return b_and(cmp_op("==", n, len(other)), *[I.py_eq(self.itemfn(j), other[j]) for j in range(len(other))])
        if not isinstance(other, SymList):
            return False
        a, b = self, other
        if len(a.extra) < len(b.extra):
            a, b = b, a
        if not a.same_fn(b):
            if a.extra or b.extra:
                raise Unsupported("comparison of symbolic lists with different item functions and appended elements")
            q = z3.Int("_ql%d" % I.ctx.next_id())
            I.pure += 1
            try:
                body = I.py_eq(a.itemfn(SymInt(q)), b.itemfn(SymInt(q)))
            finally:
                I.pure -= 1
            n = a.sym_len(I)
            return b_and(cmp_op("==", n, b.sym_len(I)),
                         mk_bool(z3.ForAll([q], z3.Implies(z3.And(q >= 0, q < zi(n)), zb(body)))))
        # a = f[0..la) ++ xs ; b = f[0..lb) ++ ys with len(xs) >= len(ys)
        conds = [cmp_op("==", a.sym_len(I), b.sym_len(I))]
        d = len(a.extra) - len(b.extra)
        for j in range(d):
            conds.append(I.py_eq(a.extra[j], b.itemfn(int_add(a.base_len, j))))
        for j in range(len(b.extra)):
            conds.append(I.py_eq(a.extra[d + j], b.extra[j]))
        return b_and(*conds)


class GList(Sym):
    """guarded list: element i is present iff its guard holds (order preserved).  Produced by a
    comprehension whose filter is symbolic, instead of forking 2^n ways."""
    is_listlike = True

    def __init__(self, items):
        self.items = list(items)  # (guard: True | SymBool, value)

    def sym_len(self, I):
        n = 0
        for g, _ in self.items:
            n = int_add(n, 1 if g is True else mk_int(zi(g), 1))
        return n

    def sym_iter(self, I):
        out = []
        for g, v in self.items:
            if g is True or I.decide(g, "guarded-element"):
                out.append(v)
        return out

    def to_list(self, I):
        return self

    def truth(self, I):
        return I.truth(b_or(*[g for g, _ in self.items])) if self.items else False

    def sym_truth(self):
        """non-empty <=> some element is present (no fork)"""
        return b_or(*[g for g, _ in self.items]) if self.items else False

    def sym_contains(self, I, item):
        """membership without forking: some present element equals the item"""
        hits = []
        for g, v in self.items:
            eq = I.py_eq(v, item)
            if eq is False:
                continue
            hits.append(g if eq is True else b_and(g, eq))
        return b_or(*hits) if hits else False

    def sym_method(self, I, name, args, kw):
        if name == "append":
            g = I.current_guard()
            v = args[0]
            if self.items and g is not True:
                # "append x unless it is already there", executed once per candidate: consecutive entries for the SAME
                # value whose guards exclude each other are one list position (present iff either guard holds).
                # Merging keeps the guards linear in size; it is order-preserving because the entries are adjacent,
                # and it is only done when the solver proves the two guards exclusive on this path.
                g0, v0 = self.items[-1]
                if g0 is not True and is_plain(v0) and is_plain(v) and type(v0) is type(v) and v0 == v:
                    both_ = b_and(g0, g)
                    if both_ is False or (isinstance(both_, SymBool) and not I.ctx.feasible(both_.e)):
                        self.items[-1] = (b_or(g0, g), v0)
                        return None
            self.items.append((g, v))
            return None
        if name == "sort" and not args and set(kw) <= {"key", "reverse"}:
            # sorting commutes with leaving elements out: sort the ENTRIES (guards travel with them).  The key function runs
            # on every entry under that entry's guard -- an exception it raises is real iff the element is present.
            kf = kw.get("key")
            keys = []
            for g, x in self.items:
                if kf is None:
                    keys.append(x)
                    continue
                if g is True:
                    keys.append(I.call(kf, [x], {}))
                    continue
                I.guard_stack.append(g)
                try:
                    try:
                        keys.append(I.call(kf, [x], {}))
                    finally:
                        I.guard_stack.pop()
                except PyRaise:
                    if I.decide(g, "guarded-sort-key-raises"):
                        raise
                    keys.append(None)
            live = [i for i in range(len(keys)) if keys[i] is not None or kf is None]
            if not all(is_plain(keys[i]) for i in live):
                raise Unsupported("sort of a guarded list with symbolic keys")
            try:
                order = sorted(live, key=lambda i: keys[i], reverse=bool(kw.get("reverse", False)))
            except NATIVE_EXC as e:
                reraise_native(I, e)
            self.items = [self.items[i] for i in order]
            return None
        return call_native_method(I, self.sym_iter(I), name, args, kw)


class GDict(Sym):
    """guarded dict with concrete keys: key present iff its guard holds"""

    def __init__(self):
        self.entries = {}  # key -> (guard, value)

    def put(self, k, g, v):
        if k in self.entries:
            g0, v0 = self.entries[k]
            # first occurrence wins (dict.fromkeys / dict comprehension keep the first position);
            # value: later assignment overrides when present -- only used with identical values
            self.entries[k] = (b_or(g0, g), v0 if v0 is v or v is None else v)
        else:
            self.entries[k] = (g, v)

    def to_list(self, I):
        return GList([(g, k) for k, (g, v) in self.entries.items()])

    def sym_iter(self, I):
        return self.to_list(I).sym_iter(I)

    def sym_len(self, I):
        return self.to_list(I).sym_len(I)

    def sym_method(self, I, name, args, kw):
        if name == "items":
            return GList([(g, (k, v)) for k, (g, v) in self.entries.items()])
        if name == "values":
            return GList([(g, v) for k, (g, v) in self.entries.items()])
        if name == "keys":
            return self.to_list(I)
        raise Unsupported("dict.%s on a guarded dict" % name)

    def sym_getitem(self, I, k):
        if k in self.entries:
            g, v = self.entries[k]
            if g is True or I.decide(g, "guarded-key"):
                return v
        I.raise_("KeyError", k)

    def sym_setitem(self, I, k, v):
        if isinstance(k, Sym):
            raise Unsupported("guarded dict with symbolic key")
        self.put(k, I.current_guard(), v)

    def sym_contains(self, I, k):
        if k in self.entries:
            g, _ = self.entries[k]
            return g
        return False


def dict_fromkeys(I, args, kw):
    src = args[0]
    val = args[1] if len(args) > 1 else None
    if isinstance(src, GList):
        d = GDict()
        for g, k in src.items:
            if isinstance(k, Sym):
                raise Unsupported("guarded dict with symbolic key")
            d.put(k, g, val)
        if all(g is True for g, _ in d.entries.values()):
            return {k: v for k, (g, v) in d.entries.items()}
        return d
    return dict.fromkeys(I.iterate_concrete(src), val)


class SymRange(Sym):
    def __init__(self, start, stop, step):
        self.start, self.stop, self.step = start, stop, step

    def sym_len(self, I):
        d = int_sub(self.stop, self.start)
        if isinstance(d, int):
            return max(0, -(-d // self.step))
        n = int_floordiv(int_add(d, self.step - 1), self.step) if self.step != 1 else d
        return zmax(n, 0)

    def sym_item(self, I, k):
        return int_add(self.start, int_mul(k, self.step))

    def sym_iter(self, I):
        n = self.sym_len(I)
        if isinstance(n, int):
            return [self.sym_item(I, k) for k in range(n)]
        out = []
        k = 0
        while I.decide(cmp_op("<", k, n), "range-unroll"):
            if k > I.max_unroll:
                raise Unsupported("iteration over symbolic range needs an invariant")
            out.append(self.sym_item(I, k))
            k += 1
        return out


class SymEnumerate(Sym):
    def __init__(self, it, start):
        self.it, self.start = it, start

    def sym_len(self, I):
        return self.it.sym_len(I)

    def sym_item(self, I, k):
        return (int_add(self.start, k), self.it.sym_item(I, k))

    def sym_iter(self, I):
        inner = self.it.sym_iter(I)
        return [(int_add(self.start, i), x) for i, x in enumerate(inner)]


def finish_enum(I, cls):
    members = {}
    for k, v in list(cls.ns.items()):
        if k.startswith("_"):
            continue
        if isinstance(v, (FuncObj, StaticMethodObj, PropertyObj, ClassObj, Opaque)):
            continue
        if isinstance(v, tuple):
            pass
        # CPython: a name whose value equals an earlier member's value is an ALIAS of that member (same object, not
        # listed when iterating the enum)
        alias = None
        for m0 in members.values():
            try:
                if type(m0.attrs["value"]) is type(v) and m0.attrs["value"] == v:
                    alias = m0
                    break
            except Exception:
                pass
        if alias is not None:
            cls.ns[k] = alias
            continue
        m = Instance(cls)
        m.attrs["name"] = k
        m.attrs["value"] = v
        m.attrs["_value_"] = v
        members[k] = m
        cls.ns[k] = m
    # inherit nothing: enums with members cannot be subclassed
    cls.members = members


# ================================================================================ struct
def _parse_fmt(I, fmt):
    """-> (endian, [(code, count)])"""
    if isinstance(fmt, SymFmt):
        # prefix + str(n) + suffix
        pre = fmt.prefix
        end, items = _parse_fmt(I, pre) if pre else ("@", [])
        if not fmt.suffix or fmt.suffix[0] not in "sp":
            raise Unsupported("symbolic struct format")
        n = fmt.n
        if I.decide(cmp_op("<", n, 0), "struct-fmt-negative-count"):
            raise PyRaise(make_struct_error(I, "bad char in struct format"))
        items.append((fmt.suffix[0], n))
        _, more = _parse_fmt(I, end + fmt.suffix[1:]) if fmt.suffix[1:] else ("", [])
        items.extend(more)
        return end, items
    if not isinstance(fmt, str):
        raise Unsupported("struct format %r" % (fmt,))
    end = "@"
    s = fmt
    if s and s[0] in "@=<>!":
        end = s[0]
        s = s[1:]
    items = []
    cnt = ""
    for ch in s:
        if ch.isdigit():
            cnt += ch
            continue
        if ch.isspace():
            continue
        if ch not in "xcbB?hHiIlLqQsp":
            raise PyRaise(make_struct_error(I, "bad char in struct format"))
        items.append((ch, int(cnt) if cnt else (1 if ch not in "sp" else 1)))
        if cnt == "" and ch in "sp":
            items[-1] = (ch, 1)
        cnt = ""
    if cnt:
        raise PyRaise(make_struct_error(I, "repeat count given without format specifier"))
    if end in "@" and any(c in "hHiIlLqQ" for c, _ in items):
        raise Unsupported("native-alignment struct format %r" % fmt)
    return end, items


_SIZES = {"b": 1, "B": 1, "?": 1, "c": 1, "x": 1, "h": 2, "H": 2, "i": 4, "I": 4, "l": 4, "L": 4, "q": 8, "Q": 8}


def struct_pack(I, args, kw):
    fmt = args[0]
    vals = list(args[1:])
    vals = [v.attrs["value"] if isinstance(v, Instance) and v.cls.is_intenum else v for v in vals]
    if is_plain(fmt) and all(is_plain(v) for v in vals):
        try:
            return _struct.pack(fmt, *vals)
        except _struct.error as e:
            raise PyRaise(make_struct_error(I, *e.args))
        except TypeError as e:
            reraise_native(I, e)
    end, items = _parse_fmt(I, fmt)
    nvals = sum(1 if c in "sp" else (0 if c == "x" else n) for c, n in items)
    if nvals != len(vals):
        raise PyRaise(make_struct_error(I, "pack expected %d items for packing (got %d)" % (nvals, len(vals))))
    big = end in ">!"
    out = []  # list of SymBytes/bytes pieces
    vi = 0
    for c, n in items:
        if c == "x":
            out.append(b"\x00" * n)
            continue
        if c == "s":
            v = vals[vi]; vi += 1
            if not isinstance(v, (bytes, SymBytes)):
                raise PyRaise(make_struct_error(I, "argument for 's' must be a bytes object"))
            ln = blen(v)
            if isinstance(n, int) and isinstance(ln, int):
                if ln >= n:
                    out.append(bytes_slice(v, 0, n))
                else:
                    out.append(bytes_concat(v, b"\x00" * (n - ln)))
            else:
                raise Unsupported("struct.pack 's' with symbolic size")
            continue
        for _ in range(n):
            v = vals[vi]; vi += 1
            if isinstance(v, (float, SymFloat)) or v is None or isinstance(v, (str, bytes, SymBytes, Instance, list, tuple, dict)):
                raise PyRaise(make_struct_error(I, "required argument is not an integer"))
            if isinstance(v, SymInt) and v.is_real:
                raise PyRaise(make_struct_error(I, "required argument is not an integer"))
            if c == "?":
                out.append(SymBytes.from_elems([mk_int(zi(mk_bool(zb(v))) if isinstance(v, Sym) else int(bool(v)), 1)]))
                continue
            size = _SIZES[c]
            signed = c in "bhilq"
            lo = -(1 << (8 * size - 1)) if signed else 0
            hi = (1 << (8 * size - 1)) - 1 if signed else (1 << (8 * size)) - 1
            if I.decide(b_or(cmp_op("<", v, lo), cmp_op(">", v, hi)), "struct.pack-range(%s)" % c):
                raise PyRaise(make_struct_error(I, "'%s' format requires %d <= number <= %d" % (c, lo, hi)))
            u = v if not signed else int_mod(v, 1 << (8 * size))
            bs = []
            for k in range(size):
                shift = 8 * (size - 1 - k) if big else 8 * k
                bs.append(int_mod(int_floordiv(u, 1 << shift), 256) if size > 1 else _i(u))
            out.append(SymBytes.from_elems(bs))
    r = b""
    for p in out:
        r = bytes_concat(r, p) if not (isinstance(r, bytes) and isinstance(p, bytes)) else r + p
    return r


def struct_unpack(I, args, kw):
    fmt, data = args[0], args[1]
    if is_plain(fmt) and isinstance(data, bytes):
        try:
            return _struct.unpack(fmt, data)
        except _struct.error as e:
            raise PyRaise(make_struct_error(I, *e.args))
    if not isinstance(data, (bytes, SymBytes)):
        I.raise_("TypeError", "a bytes-like object is required, not '%s'" % _tn(data))
    end, items = _parse_fmt(I, fmt)
    big = end in ">!"
    total = 0
    for c, n in items:
        total = int_add(total, n if c in "sp" else int_mul(_SIZES[c], n) if not isinstance(n, int) else _SIZES.get(c, 1) * n)
    ln = blen(data)
    lnv = ln if isinstance(ln, int) else mk_int(ln)
    if I.decide(I.py_ne(lnv, total), "struct.unpack-size"):
        raise PyRaise(make_struct_error(I, "unpack requires a buffer of %s bytes" % (total if isinstance(total, int) else "<n>")))
    d = as_symbytes(data)
    pos = 0
    out = []
    for c, n in items:
        if c == "x":
            pos = int_add(pos, n)
            continue
        if c == "s":
            out.append(bytes_slice(d, pos, int_add(pos, n)))
            pos = int_add(pos, n)
            continue
        for _ in range(n):
            size = _SIZES[c]
            bs = [bytes_index(d, int_add(pos, k)) for k in range(size)]
            if not big:
                bs = bs[::-1]
            v = 0
            for b in bs:
                v = int_add(int_mul(v, 256), b)
            if c == "?":
                v = I.py_ne(v, 0)
            elif c in "bhilq":
                half = 1 << (8 * size - 1)
                if isinstance(v, int):
                    v = v - (1 << (8 * size)) if v >= half else v
                else:
                    v = mk_int(z3.If(zi(v) >= half, zi(v) - (1 << (8 * size)), zi(v)))
            out.append(v)
            pos = int_add(pos, size)
    return tuple(out)


def struct_calcsize(I, args, kw):
    return _struct.calcsize(args[0])


# ========================================================================= stub modules
def make_stub_modules(I):
    S = {}

    def mod(name):
        m = Module(name)
        m.is_stub = True
        S[name] = m
        return m

    B = I.builtins

    m = mod("struct")
    err = ClassObj("error", [B["Exception"]], {}, m, "struct.error")
    err.is_exc = True
    m.ns["error"] = err
    m.ns["pack"] = NativeFn("struct.pack", struct_pack)
    m.ns["unpack"] = NativeFn("struct.unpack", struct_unpack)
    m.ns["calcsize"] = NativeFn("struct.calcsize", struct_calcsize)

    m = mod("logging")

    class _Logger:
        pass

    def get_logger(I_, args, kw):
        return Opaque("logger")
    m.ns["getLogger"] = NativeFn("logging.getLogger", get_logger)
    m.ns["DEBUG"] = 10; m.ns["INFO"] = 20; m.ns["WARNING"] = 30; m.ns["ERROR"] = 40

    m = mod("typing")
    for n in ["List", "Callable", "Any", "Optional", "Tuple", "Dict", "Coroutine", "Union", "Set", "Type", "Iterable", "Awaitable"]:
        m.ns[n] = Opaque("typing." + n)
    m.ns["TYPE_CHECKING"] = False
    m.ns["TypeVar"] = NativeFn("TypeVar", lambda I_, a, k: Opaque("TypeVar"))

    m = mod("abc")
    m.ns["ABC"] = ClassObj("ABC", [B["object"]], {}, m)
    m.ns["abstractmethod"] = NativeFn("abstractmethod", lambda I_, a, k: a[0])

    m = mod("dataclasses")
    m.ns["dataclass"] = NativeFn("dataclass", lambda I_, a, k: a[0])

    m = mod("enum")
    E = ClassObj("Enum", [B["object"]], {}, m)
    E.is_enum = True
    IE = ClassObj("IntEnum", [E], {}, m)
    IE.is_enum = True
    IE.is_intenum = True
    m.ns["Enum"] = E
    m.ns["IntEnum"] = IE

    m = mod("re")
    m.ns["DOTALL"] = 16
    m.ns["search"] = NativeFn("re.search", _unmodelled("re.search"))
    m.ns["compile"] = NativeFn("re.compile", lambda I_, a, k: Opaque("re.compiled-pattern"))
    m.ns["match"] = NativeFn("re.match", _unmodelled("re.match"))

    m = mod("importlib")

    def import_module(I_, args, kw):
        name = args[0]
        if not isinstance(name, str):
            raise Unsupported("importlib.import_module of symbolic name")
        return I_.import_module(name)
    m.ns["import_module"] = NativeFn("importlib.import_module", import_module)

    m = mod("time")
    m.ns["monotonic"] = NativeFn("time.monotonic", lambda I_, a, k: I_.ctx.clock_now(I_))
    m.ns["time"] = NativeFn("time.time", lambda I_, a, k: I_.ctx.clock_now(I_))
    m.ns["sleep"] = NativeFn("time.sleep", _unmodelled("time.sleep"))

    m = mod("datetime")
    dt = ClassObj("datetime", [B["object"]], {}, m)

    def dt_now(I_, args, kw):
        inst = Instance(dt)
        inst.attrs["_t"] = I_.ctx.fresh_int("datetime")
        return inst
    dt.ns["now"] = StaticMethodObj(NativeFn("datetime.now", dt_now))
    dt.ns["utcnow"] = StaticMethodObj(NativeFn("datetime.utcnow", dt_now))

    def dt_replace(I_, args, kw):
        return args[0]
    f = NativeFn("datetime.replace", dt_replace); f.is_method = True
    dt.ns["replace"] = f

    def dt_strftime(I_, args, kw):
        return SymText(args[0].attrs["_t"], "strftime")
    f = NativeFn("datetime.strftime", dt_strftime); f.is_method = True
    dt.ns["strftime"] = f
    m.ns["datetime"] = dt
    tz = Opaque("timezone")
    m.ns["timezone"] = tz

    m = mod("socket")
    m.ns["AF_INET"] = 2; m.ns["SOCK_DGRAM"] = 2; m.ns["IPPROTO_UDP"] = 17
    m.ns["SOL_SOCKET"] = 1; m.ns["SO_BROADCAST"] = 6
    m.ns["timeout"] = B["TimeoutError"]
    m.ns["socket"] = NativeFn("socket.socket", _unmodelled("socket.socket"))

    m = mod("threading")
    lock = ClassObj("Lock", [B["object"]], {}, m, "threading.Lock")

    def lock_init(I_, args, kw):
        args[0].attrs["held"] = False

    def lock_enter(I_, args, kw):
        s = args[0]
        I_.ctx.event(("lock-acquire", id(s)))
        if s.attrs.get("held"):
            raise Unsupported("re-acquiring a held threading.Lock (deadlock)")
        s.attrs["held"] = True
        return s

    def lock_exit(I_, args, kw):
        args[0].attrs["held"] = False
        I_.ctx.event(("lock-release", id(args[0])))
        return False
    for nm, fnc in (("__init__", lock_init), ("__enter__", lock_enter), ("__exit__", lock_exit),
                    ("acquire", lock_enter), ("release", lock_exit)):
        f = NativeFn("Lock." + nm, fnc); f.is_method = True
        lock.ns[nm] = f
    m.ns["Lock"] = lock
    m.ns["Thread"] = NativeFn("threading.Thread", lambda I_, a, k: Opaque("Thread"))
    m.ns["Event"] = NativeFn("threading.Event", _unmodelled("threading.Event"))

    m = mod("asyncio")
    ce = ClassObj("CancelledError", [B["BaseException"]], {}, m, "asyncio.CancelledError")
    ce.is_exc = True
    m.ns["CancelledError"] = ce
    m.ns["TimeoutError"] = B["TimeoutError"]
    m.ns["Future"] = Opaque("asyncio.Future")
    m.ns["BaseTransport"] = Opaque("asyncio.BaseTransport")
    m.ns["DatagramProtocol"] = ClassObj("DatagramProtocol", [B["object"]], {}, m)
    alock = ClassObj("Lock", [B["object"]], {}, m, "asyncio.Lock")

    def alock_init(I_, args, kw):
        args[0].attrs["held"] = False

    def alock_enter(I_, args, kw):
        s = args[0]
        I_.ctx.suspend(I_, "lock.acquire")
        if s.attrs.get("held"):
            raise Unsupported("re-acquiring a held asyncio.Lock (deadlock)")
        s.attrs["held"] = True
        I_.ctx.event(("alock-acquire", id(s)))
        return None

    def alock_exit(I_, args, kw):
        args[0].attrs["held"] = False
        I_.ctx.event(("alock-release", id(args[0])))
        return None
    for nm, fnc in (("__init__", alock_init), ("__aenter__", alock_enter), ("__aexit__", alock_exit)):
        f = NativeFn("asyncio.Lock." + nm, fnc); f.is_method = True
        alock.ns[nm] = f
    m.ns["Lock"] = alock

    def a_sleep(I_, args, kw):
        I_.ctx.sleep(I_, args[0] if args else 0)
        return None
    m.ns["sleep"] = NativeFn("asyncio.sleep", a_sleep)
    for n in ["wait", "gather", "create_task", "get_running_loop", "wait_for", "get_event_loop", "run", "ensure_future"]:
        m.ns[n] = NativeFn("asyncio." + n, _unmodelled("asyncio." + n))
    m.ns["current_task"] = NativeFn("asyncio.current_task", lambda I_, a, k: Opaque("logging.task"))
    ise = ClassObj("InvalidStateError", [B["Exception"]], {}, m, "asyncio.InvalidStateError")
    ise.is_exc = True
    m.ns["InvalidStateError"] = ise
    q = mod("asyncio.queues")
    Q = ClassObj("Queue", [B["object"]], {}, q, "asyncio.Queue")

    def q_init(I_, args, kw):
        args[0].attrs["_queue"] = []
        args[0].attrs["_maxsize"] = args[1] if len(args) > 1 else kw.get("maxsize", 0)

    def q_len(I_, qq):
        return B["len"].fn(I_, [qq], {})

    def q_full(I_, args, kw):
        ms = args[0].attrs.get("_maxsize", 0)
        if not I_.truth(I_.compare(ast.Gt(), ms, 0)):
            return False
        return I_.truth(I_.compare(ast.GtE(), q_len(I_, args[0].attrs["_queue"]), ms))

    def q_empty(I_, args, kw):
        return I_.compare(ast.Eq(), q_len(I_, args[0].attrs["_queue"]), 0)

    def q_qsize(I_, args, kw):
        return q_len(I_, args[0].attrs["_queue"])

    def q_put(I_, args, kw):
        if q_full(I_, args, kw):
            raise PyRaise(Instance_of(q.ns["QueueFull"]))
        qq = args[0].attrs["_queue"]
        if isinstance(qq, SymList):
            qq.sym_method(I_, "append", [args[1]], {})
        else:
            qq.append(args[1])

    def q_get(I_, args, kw):
        qq = args[0].attrs["_queue"]
        if isinstance(qq, SymList):
            raise Unsupported("Queue.get_nowait on a symbolic-length queue")
        if not qq:
            raise PyRaise(Instance_of(q.ns["QueueEmpty"]))
        return qq.pop(0)
    qe = ClassObj("QueueEmpty", [B["Exception"]], {}, q, "asyncio.QueueEmpty")
    qe.is_exc = True
    q.ns["QueueEmpty"] = qe
    m.ns["QueueEmpty"] = qe
    qf = ClassObj("QueueFull", [B["Exception"]], {}, q, "asyncio.QueueFull")
    qf.is_exc = True
    q.ns["QueueFull"] = qf
    m.ns["QueueFull"] = qf
    for nm, fnc in (("__init__", q_init), ("qsize", q_qsize), ("put_nowait", q_put), ("get_nowait", q_get), ("full", q_full), ("empty", q_empty)):
        f = NativeFn("Queue." + nm, fnc); f.is_method = True
        Q.ns[nm] = f
    q.ns["Queue"] = Q
    m.ns["queues"] = q
    m.ns["Queue"] = Q

    for n in ["os", "glob", "readline", "sys", "traceback", "pathlib", "json"]:
        mod(n)
    m = mod("ast")
    if "SyntaxError" not in B:
        se = ClassObj("SyntaxError", [B["Exception"]], {}, None, "SyntaxError")
        se.is_exc = True
        B["SyntaxError"] = se

    def literal_eval(I_, args, kw):
        import ast as _ast
        if not (len(args) == 1 and isinstance(args[0], str)):
            raise Unsupported("ast.literal_eval of a symbolic / non-text argument")
        try:
            return _ast.literal_eval(args[0])     # pure function of a concrete string: partial evaluation
        except SyntaxError as e:
            I_.raise_("SyntaxError", str(e))
        except (ValueError, TypeError, MemoryError, RecursionError) as e:
            I_.raise_("ValueError", str(e))
    m.ns["literal_eval"] = NativeFn("ast.literal_eval", literal_eval)
    m = mod("itertools")

    class Cycle:
        def __init__(self, items):
            self.items = list(items)
            self.i = 0

    def cycle(I_, args, kw):
        c = Cycle(I_.iterate_concrete(args[0]))
        return c
    m.ns["cycle"] = NativeFn("itertools.cycle", cycle)
    m.ns["_Cycle"] = Cycle

    def _next(I_, args, kw):
        it = args[0]
        if isinstance(it, Cycle):
            if not it.items:
                I_.raise_("StopIteration")
            v = it.items[it.i % len(it.items)]
            it.i += 1
            return v
        if isinstance(it, GList):
            # generator expression with a symbolic filter (evaluated eagerly into a guarded list): the first PRESENT element
            for g, x in it.items:
                if g is True or I_.decide(g, "next-of-guarded"):
                    return x
            if len(args) > 1:
                return args[1]
            I_.raise_("StopIteration")
        if isinstance(it, list):
            # result of a generator expression (evaluated eagerly): consume from the front
            if it:
                return it.pop(0)
            if len(args) > 1:
                return args[1]
            I_.raise_("StopIteration")
        I_.raise_("TypeError", "'%s' object is not an iterator" % _tn(it))
    B["next"] = NativeFn("next", _next)
    m = mod("cmd")
    m.ns["Cmd"] = ClassObj("Cmd", [B["object"]], {}, m, "cmd.Cmd")
    m = mod("random")

    def rnd(I_, args, kw):
        r = I_.ctx.fresh_real("random")
        I_.ctx.add(z3.And(r.e >= 0, r.e < 1))
        return r
    m.ns["random"] = NativeFn("random.random", rnd)
    m.ns["seed"] = NativeFn("random.seed", lambda I_, a, k: None)
    return S


def Instance_of(cls, *args):
    inst = Instance(cls)
    inst.attrs["args"] = tuple(args)
    return inst


def _unmodelled(name):
    def f(I_, args, kw):
        raise Unsupported("call of unmodelled %s (needs a summary in the harness)" % name)
    return f
