"""pyvc interpreter: path-wise symbolic execution of the Python AST of /repo.

One *run* executes a harness along one path; a symbolic branch asks the path context
for a decision (prefix replay / feasibility check / fork).  The heap is ordinary
Python objects because every path is re-executed from scratch.
"""
import ast
import os
import sys
import z3

from .values import *  # noqa
from . import values as V


# =============================================================================== control
class ReturnEx(Exception):
    def __init__(self, v):
        self.v = v


class BreakEx(Exception):
    pass


class ContinueEx(Exception):
    pass


class PyRaise(Exception):
    """an interpreted Python exception propagating"""

    def __init__(self, exc):
        self.exc = exc

    def __str__(self):
        return "PyRaise(%s)" % (describe_exc(self.exc),)


class PathEnd(Exception):
    """path abandoned (infeasible assumption, loop-cut end, ...)"""

    def __init__(self, why=""):
        self.why = why


class ContractMismatch(Exception):
    pass


class NullCtx:
    """context while modules are loaded: nothing symbolic may happen"""
    loc = None

    def clock_now(self, I):
        # a module-level object may read the clock when it is constructed (import time): some instant not after
        # the harness starts (HarnessCtx.clock_now constrains its initial clock accordingly)
        from .values import SymInt
        import z3
        return SymInt(z3.Real("module_load_time"))

    def __getattr__(self, name):
        def f(*a, **k):
            raise Unsupported("symbolic operation (%s) at module load time" % name)
        return f


# =============================================================================== objects
class Module:
    def __init__(self, name, file=None):
        self.name = name
        self.file = file
        self.ns = {"__name__": name}
        self.is_stub = False

    def __repr__(self):
        return "<module %s>" % self.name


class ClassObj:
    def __init__(self, name, bases, ns, module, qualname=None):
        self.name = name
        self.bases = bases
        self.ns = ns
        self.module = module
        self.qualname = qualname or name
        self.mro = c3(self)
        self.is_exc = any(getattr(b, "is_exc", False) for b in bases)
        self.is_enum = any(getattr(b, "is_enum", False) for b in bases)
        self.is_intenum = any(getattr(b, "is_intenum", False) for b in bases)
        self.members = None

    def lookup(self, name):
        for c in self.mro:
            if name in c.ns:
                return c.ns[name]
        return MISSING

    def lookup_after(self, after, name):
        seen = False
        for c in self.mro:
            if seen and name in c.ns:
                return c.ns[name]
            if c is after:
                seen = True
        return MISSING

    def issubclass(self, other):
        return other in self.mro

    def __repr__(self):
        return "<class %s>" % self.qualname


def c3(cls):
    def merge(seqs):
        res = []
        seqs = [list(s) for s in seqs if s]
        while seqs:
            for s in seqs:
                cand = s[0]
                if not any(cand in t[1:] for t in seqs):
                    break
            else:
                raise Unsupported("inconsistent MRO for %s" % cls.name)
            res.append(cand)
            seqs = [[x for x in t if x is not cand] for t in seqs]
            seqs = [t for t in seqs if t]
        return res

    return [cls] + merge([b.mro for b in cls.bases] + [list(cls.bases)])


class _Missing:
    def __repr__(self):
        return "MISSING"


MISSING = _Missing()


class Instance:
    def __init__(self, cls):
        self.cls = cls
        self.attrs = {}

    def __repr__(self):
        return "<%s instance>" % self.cls.qualname


class FuncObj:
    def __init__(self, node, module, closure, defaults, kwdefaults, name, qualname):
        self.node = node
        self.module = module
        self.closure = closure
        self.defaults = defaults
        self.kwdefaults = kwdefaults
        self.name = name
        self.qualname = qualname
        self.cls = None
        self.localnames = None
        self.is_async = isinstance(node, ast.AsyncFunctionDef)
        self.tags = {}

    @property
    def key(self):
        return "%s:%s" % (self.module.name, self.qualname)

    def __repr__(self):
        return "<function %s>" % self.key


class BoundMethod:
    def __init__(self, self_, func):
        self.self_ = self_
        self.func = func

    def __repr__(self):
        return "<bound %r of %r>" % (self.func, self.self_)


class PropertyObj:
    def __init__(self, fget, fset=None):
        self.fget = fget
        self.fset = fset
        self.cls = None


class StaticMethodObj:
    def __init__(self, func):
        self.func = func


class ClassMethodObj:
    def __init__(self, func):
        self.func = func


class SuperObj:
    def __init__(self, cls, self_):
        self.cls = cls
        self.self_ = self_


class CoroutineObj:
    """the result of calling an `async def` function: runs when awaited"""

    def __init__(self, func, args, kwargs):
        self.func = func
        self.args = args
        self.kwargs = kwargs
        self.started = False
        self.cancelled = False

    def __repr__(self):
        return "<coroutine %s>" % (self.func.qualname,)


class NativeFn:
    """a model of a builtin / library function: fn(interp, args, kwargs)"""

    def __init__(self, name, fn):
        self.name = name
        self.fn = fn

    def __repr__(self):
        return "<native %s>" % self.name


class NativeMethod:
    def __init__(self, obj, name):
        self.obj = obj
        self.name = name


class Frame:
    def __init__(self, kind, module, closure=None, func=None, locals_=None, localnames=None):
        self.kind = kind  # 'function' | 'class' | 'module' | 'comp'
        self.module = module
        self.closure = closure
        self.func = func
        self.locals = locals_ if locals_ is not None else {}
        self.localnames = localnames or set()
        self.globals_decl = set()
        self.cur_exc = None
        self.self_ = None


class LocalsProxy:
    """gives loop contracts read / write access to the locals of a repo frame"""

    def __init__(self, frame):
        object.__setattr__(self, "_frame", frame)


def describe_exc(exc):
    if isinstance(exc, Instance):
        a = exc.attrs.get("args", ())
        return "%s%r" % (exc.cls.name, tuple(a) if not any(isinstance(x, Sym) for x in a) else ("<symbolic>",))
    return repr(exc)


def collect_locals(fnode):
    names = set()
    globs = set()

    def targets(t):
        if isinstance(t, ast.Name):
            names.add(t.id)
        elif isinstance(t, (ast.Tuple, ast.List)):
            for e in t.elts:
                targets(e)
        elif isinstance(t, ast.Starred):
            targets(t.value)

    def visit(n):
        for ch in ast.iter_child_nodes(n):
            if isinstance(ch, (ast.FunctionDef, ast.AsyncFunctionDef, ast.ClassDef)):
                names.add(ch.name)
                continue
            if isinstance(ch, (ast.Lambda, ast.ListComp, ast.SetComp, ast.DictComp, ast.GeneratorExp)):
                # walrus inside comps ignored
                continue
            if isinstance(ch, (ast.Global, ast.Nonlocal)):
                globs.update(ch.names)
            elif isinstance(ch, ast.Name) and isinstance(ch.ctx, (ast.Store, ast.Del)):
                names.add(ch.id)
            elif isinstance(ch, (ast.Import, ast.ImportFrom)):
                for a in ch.names:
                    names.add((a.asname or a.name).split(".")[0])
            elif isinstance(ch, ast.ExceptHandler) and ch.name:
                names.add(ch.name)
            visit(ch)

    if isinstance(fnode, ast.Lambda):
        pass
    else:
        for st in fnode.body:
            visit(ast.Module(body=[st], type_ignores=[]))
    a = fnode.args
    for arg in a.posonlyargs + a.args + a.kwonlyargs:
        names.add(arg.arg)
    if a.vararg:
        names.add(a.vararg.arg)
    if a.kwarg:
        names.add(a.kwarg.arg)
    return names - globs, globs


LOG_NAMES = {"_LOGGER", "logger", "logging"}


def is_concrete(v, depth=0):
    if isinstance(v, Sym):
        return False
    if isinstance(v, (tuple, list)) and depth < 4:
        return all(is_concrete(x, depth + 1) for x in v)
    if isinstance(v, dict) and depth < 4:
        return all(is_concrete(x, depth + 1) for x in v.values())
    return True


def is_plain(v, depth=0):
    """concrete and made only of native Python data (safe to hand to real builtins)"""
    if isinstance(v, (int, float, str, bytes, type(None), bool)):
        return True
    if isinstance(v, (tuple, list)) and depth < 4:
        return all(is_plain(x, depth + 1) for x in v)
    if isinstance(v, dict) and depth < 4:
        return all(is_plain(k, depth + 1) and is_plain(x, depth + 1) for k, x in v.items())
    return False


# ================================================================================ interp
class Interp:
    def __init__(self, roots, ctx=None):
        """roots: list of (package prefix, directory)"""
        self.roots = roots
        self.modules = {}
        self.ctx = ctx if ctx is not None else NullCtx()
        self.summaries = {}  # key -> FuncObj (sidecar) active for this run
        self.loop_contracts = {}  # (key, ordinal) -> (header_text, havoc FuncObj, inv FuncObj)
        self.call_depth = 0
        self.suspension_hook = None
        self.trace_calls = None
        self.mode_stack = []  # 'summary' polarity flips
        self.pure = 0
        from . import builtins_model

        self.bm = builtins_model
        self.builtins = builtins_model.make_builtins(self)
        self.stubs = builtins_model.make_stub_modules(self)
        self.source_cache = {}
        self.loop_ordinals = {}
        self.max_unroll = 2000
        self.loop_bound = None          # bounded fall-back mode (cli): explore at most this many iterations of a loop without usable contract
        self.stale_loops = set()
        self.used_summaries = set()
        self.used_loop_contracts = set()
        self.reached_functions = set()
        self.guard_stack = []

    # ------------------------------------------------------------------ module loading
    def find_module_file(self, name):
        for prefix, d in self.roots:
            if name == prefix or name.startswith(prefix + "."):
                rel = name[len(prefix):].lstrip(".")
                base = os.path.join(d, *rel.split(".")) if rel else d
                if os.path.isdir(base) and os.path.exists(os.path.join(base, "__init__.py")):
                    return os.path.join(base, "__init__.py"), True
                if os.path.exists(base + ".py"):
                    return base + ".py", False
                # module names with dashes (pack tables) map 1:1 to file names
                return None, False
        return None, False

    def import_module(self, name):
        if name in self.modules:
            return self.modules[name]
        if name in self.stubs:
            return self.stubs[name]
        # real import semantics: parent packages are imported (their __init__ executed) first
        if "." in name:
            parent = name.rpartition(".")[0]
            if any(parent == p or parent.startswith(p + ".") for p, _ in self.roots):
                self.import_module(parent)
                if name in self.modules:
                    return self.modules[name]
        path, is_pkg = self.find_module_file(name)
        if path is None:
            root = name.split(".")[0]
            if any(root == p.split(".")[0] for p, _ in self.roots):
                raise PyRaise(self.make_exc("ModuleNotFoundError", "No module named %r" % name))
            raise Unsupported("import of unmodelled module %s" % name)
        mod = Module(name, path)
        mod.is_pkg = is_pkg
        mod.ns["__package__"] = name if is_pkg else name.rpartition(".")[0]
        self.modules[name] = mod
        src = open(path, encoding="utf-8").read()
        tree = ast.parse(src, filename=path)
        self.source_cache[path] = src
        frame = Frame("module", mod, locals_=mod.ns)
        try:
            self.exec_block(tree.body, frame)
        except BaseException:
            self.modules.pop(name, None)
            raise
        return mod

    def resolve_relative(self, frame, level, modname):
        pkg = frame.module.ns.get("__package__", "")
        parts = pkg.split(".") if pkg else []
        if level > 1:
            parts = parts[: len(parts) - (level - 1)]
        base = ".".join(parts)
        if modname:
            return base + "." + modname if base else modname
        return base

    # ------------------------------------------------------------------------- helpers
    def make_exc(self, clsname, *args):
        cls = self.builtins[clsname] if clsname in self.builtins else self.stubs["struct"].ns.get(clsname)
        if cls is None:
            cls = self.builtins["Exception"]
        inst = Instance(cls)
        inst.attrs["args"] = tuple(args)
        return inst

    def raise_(self, clsname, *args):
        raise PyRaise(self.make_exc(clsname, *args))

    def current_guard(self):
        """presence condition of the guarded element whose loop body is being executed speculatively"""
        if not self.guard_stack:
            return True
        return b_and(*self.guard_stack)

    def decide(self, cond, why=""):
        """truth decision on a python-level value"""
        if isinstance(cond, bool):
            return cond
        if isinstance(cond, SymBool):
            return self.ctx.decide(cond.e, why)
        return self.truth(cond)

    def truth(self, v):
        if isinstance(v, bool):
            return v
        if v is None:
            return False
        if isinstance(v, SymBool):
            return self.ctx.decide(v.e, "truth")
        if isinstance(v, SymInt):
            return self.ctx.decide(v.e != 0, "truth")
        if isinstance(v, SymBytes):
            if isinstance(v.length, int):
                return v.length != 0
            return self.ctx.decide(v.length != 0, "truth")
        if isinstance(v, SymFloat):
            return self.ctx.decide(z3.Not(z3.fpIsZero(v.e)), "truth")
        if isinstance(v, SymStr):
            return self.truth(v.b)
        if isinstance(v, SymChoice):
            return self.truth(v.map(lambda x: bool(x)))
        if isinstance(v, Sym):
            if hasattr(v, "truth"):
                return v.truth(self)
            raise Unsupported("truth of %r" % (v,))
        if isinstance(v, Instance):
            f = v.cls.lookup("__bool__")
            if f is not MISSING:
                return self.truth(self.call(BoundMethod(v, f), [], {}))
            f = v.cls.lookup("__len__")
            if f is not MISSING:
                return self.truth(self.py_ne(self.call(BoundMethod(v, f), [], {}), 0))
            return True
        if isinstance(v, (int, float, str, bytes, tuple, list, dict, set, frozenset, range)):
            return bool(v)
        return True

    # ------------------------------------------------------------------------ equality
    def py_eq(self, a, b):
        if a is b and not isinstance(a, (Sym, float)):
            return True
        if isinstance(a, Instance) or isinstance(b, Instance):
            return self.inst_eq(a, b)
        if a is None or b is None:
            if isinstance(a, SymChoice) or isinstance(b, SymChoice):
                ch = a if isinstance(a, SymChoice) else b
                return ch.map(lambda x: x is None)
            return False if not (a is None and b is None) else True
        if isinstance(a, SymChoice) or isinstance(b, SymChoice):
            if isinstance(a, SymChoice) and isinstance(b, SymChoice):
                return mk_bool(a.id_term() == b.id_term())
            ch, other = (a, b) if isinstance(a, SymChoice) else (b, a)
            if isinstance(other, Sym):
                return self.py_eq(self.bm.concretize(self, ch), other)
            if not is_plain(other):
                return False
            return ch.eq_const(other)
        if isinstance(a, (SymInt, SymBool)) or isinstance(b, (SymInt, SymBool)):
            if isinstance(a, (SymInt, SymBool, int)) and isinstance(b, (SymInt, SymBool, int)):
                if isinstance(a, (SymBool, bool)) and isinstance(b, (SymBool, bool)):
                    return mk_bool(zb(a) == zb(b))
                return cmp_op("==", a, b)
            if isinstance(a, (SymFloat, float)) or isinstance(b, (SymFloat, float)):
                return f_cmp("==", a, b)
            return False
        if isinstance(a, (SymFloat,)) or isinstance(b, (SymFloat,)):
            if isinstance(a, (SymFloat, float, int)) and isinstance(b, (SymFloat, float, int)):
                return f_cmp("==", a, b)
            return False
        if isinstance(a, SymBytes) or isinstance(b, SymBytes):
            if isinstance(a, (SymBytes, bytes)) and isinstance(b, (SymBytes, bytes)):
                return bytes_eq(a, b)
            return False
        if isinstance(a, SymStr) or isinstance(b, SymStr):
            if isinstance(a, str):
                try:
                    a = SymStr(as_symbytes(a.encode("latin-1")))
                except UnicodeEncodeError:
                    return False
            if isinstance(b, str):
                try:
                    b = SymStr(as_symbytes(b.encode("latin-1")))
                except UnicodeEncodeError:
                    return False
            if isinstance(a, SymStr) and isinstance(b, SymStr):
                return bytes_eq(a.b, b.b)
            return False
        if isinstance(a, Sym) or isinstance(b, Sym):
            if hasattr(a, "sym_eq"):
                return a.sym_eq(self, b)
            if hasattr(b, "sym_eq"):
                return b.sym_eq(self, a)
            raise Unsupported("== on %r / %r" % (type(a).__name__, type(b).__name__))
        if isinstance(a, (tuple, list)) and type(a) is type(b):
            if len(a) != len(b):
                return False
            if is_plain(a) and is_plain(b):
                return a == b
            return b_and(*[self.py_eq(x, y) for x, y in zip(a, b)])
        if isinstance(a, dict) and isinstance(b, dict):
            if set(a.keys()) != set(b.keys()):
                return False
            return b_and(*[self.py_eq(a[k], b[k]) for k in a])
        if isinstance(a, (ClassObj, FuncObj, Module, NativeFn)) or isinstance(b, (ClassObj, FuncObj, Module, NativeFn)):
            return a is b
        if isinstance(a, BoundMethod) and isinstance(b, BoundMethod):
            return a.self_ is b.self_ and a.func is b.func
        if isinstance(a, BoundMethod) or isinstance(b, BoundMethod):
            return False
        try:
            return a == b
        except Unsupported:
            raise
        except Exception:
            return False

    def inst_eq(self, a, b):
        if isinstance(a, Instance):
            if a.cls.is_intenum:
                if isinstance(b, Instance):
                    return a is b or (b.cls.is_intenum and a.attrs["value"] == b.attrs["value"])
                return self.py_eq(a.attrs["value"], b)
            f = a.cls.lookup("__eq__")
            if f is not MISSING and isinstance(f, FuncObj):
                return self.call(BoundMethod(a, f), [b], {})
        if isinstance(b, Instance):
            if b.cls.is_intenum:
                return self.py_eq(b.attrs["value"], a)
            f = b.cls.lookup("__eq__")
            if f is not MISSING and isinstance(f, FuncObj):
                return self.call(BoundMethod(b, f), [a], {})
        return a is b

    def py_ne(self, a, b):
        return b_not(self.py_eq(a, b))

    def contains(self, container, item):
        if isinstance(container, (list, tuple, set, frozenset)):
            if is_plain(item) and all(is_plain(x) for x in container):
                return item in container
            return b_or(*[self.py_eq(x, item) for x in container])
        if isinstance(container, dict):
            if isinstance(item, Sym):
                return b_or(*[self.py_eq(k, item) for k in container])
            try:
                return item in container
            except TypeError:
                return False
        if isinstance(container, str):
            if isinstance(item, str):
                return item in container
            raise Unsupported("symbolic substring test")
        if isinstance(container, (bytes,)) and isinstance(item, (bytes, int)):
            return item in container
        if isinstance(container, range) and isinstance(item, int):
            return item in container
        if isinstance(container, range) and isinstance(item, SymInt) and container.step == 1:
            return b_and(cmp_op(">=", item, container.start), cmp_op("<", item, container.stop))
        if isinstance(container, Instance):
            f = container.cls.lookup("__contains__")
            if f is not MISSING:
                return self.call(BoundMethod(container, f), [item], {})
        if hasattr(container, "sym_contains"):
            return container.sym_contains(self, item)
        raise Unsupported("`in` on %r" % (type(container).__name__,))

    # ------------------------------------------------------------------------ attribute
    def getattr_(self, obj, name, default=MISSING):
        if isinstance(obj, Instance):
            cv = obj.cls.lookup(name)
            if isinstance(cv, PropertyObj):
                return self.call_function(cv.fget, [obj], {})
            if name in obj.attrs:
                return obj.attrs[name]
            if cv is not MISSING:
                if isinstance(cv, FuncObj):
                    return BoundMethod(obj, cv)
                if isinstance(cv, StaticMethodObj):
                    return cv.func
                if isinstance(cv, ClassMethodObj):
                    return BoundMethod(obj.cls, cv.func)
                if isinstance(cv, NativeFn) and getattr(cv, "is_method", False):
                    return BoundMethod(obj, cv)
                return cv
            if name == "__class__":
                return obj.cls
            if name == "__dict__":
                return obj.attrs
            if default is not MISSING:
                return default
            self.raise_("AttributeError", "'%s' object has no attribute '%s'" % (obj.cls.name, name))
        if isinstance(obj, ClassObj):
            cv = obj.lookup(name)
            if cv is not MISSING:
                if isinstance(cv, StaticMethodObj):
                    return cv.func
                if isinstance(cv, ClassMethodObj):
                    return BoundMethod(obj, cv.func)
                return cv
            if name == "__name__":
                return obj.name
            if name == "__qualname__":
                return obj.qualname
            if name == "__doc__":
                return None
            if name == "__module__":
                return obj.module.name if obj.module is not None else "builtins"
            if default is not MISSING:
                return default
            self.raise_("AttributeError", "type object '%s' has no attribute '%s'" % (obj.name, name))
        if isinstance(obj, Module):
            if name in obj.ns:
                return obj.ns[name]
            if default is not MISSING:
                return default
            if obj.is_stub:
                if obj.name in ("logging", "sys", "os", "traceback", "readline", "glob", "pathlib", "json"):
                    return self.bm.opaque(obj.name + "." + name)
                raise Unsupported("unmodelled %s.%s" % (obj.name, name))
            # sub-module access
            try:
                return self.import_module(obj.name + "." + name)
            except PyRaise:
                self.raise_("AttributeError", "module '%s' has no attribute '%s'" % (obj.name, name))
        if isinstance(obj, SuperObj):
            inst = obj.self_
            cls = inst.cls if isinstance(inst, Instance) else inst
            cv = cls.lookup_after(obj.cls, name)
            if cv is MISSING:
                self.raise_("AttributeError", "'super' object has no attribute '%s'" % name)
            if isinstance(cv, FuncObj):
                return BoundMethod(inst, cv)
            if isinstance(cv, NativeFn):
                return BoundMethod(inst, cv) if getattr(cv, "is_method", False) else cv
            if isinstance(cv, PropertyObj):
                return self.call_function(cv.fget, [inst], {})
            if isinstance(cv, StaticMethodObj):
                return cv.func
            return cv
        if isinstance(obj, FuncObj):
            if name == "__name__":
                return obj.name
            if name == "__qualname__":
                return obj.qualname
            if name in obj.tags:
                return obj.tags[name]
        if isinstance(obj, BoundMethod):
            if name == "__self__":
                return obj.self_
            if name == "__func__":
                return obj.func
            if name == "__name__":
                return obj.func.name
        if isinstance(obj, LocalsProxy):
            fr = object.__getattribute__(obj, "_frame")
            if name in fr.locals:
                return fr.locals[name]
            self.raise_("AttributeError", "frame has no local '%s'" % name)
        r = self.bm.native_getattr(self, obj, name)
        if r is not MISSING:
            return r
        if default is not MISSING:
            return default
        if isinstance(obj, (Sym, int, float, str, bytes, list, tuple, dict, set, type(None), range)):
            if obj is None or isinstance(obj, (int, float)):
                self.raise_("AttributeError", "'%s' object has no attribute '%s'" % (type(obj).__name__, name))
            return NativeMethod(obj, name)
        raise Unsupported("attribute %s of %r" % (name, type(obj).__name__))

    def setattr_(self, obj, name, value):
        if isinstance(obj, Instance):
            cv = obj.cls.lookup(name)
            if isinstance(cv, PropertyObj):
                if cv.fset is None:
                    self.raise_("AttributeError", "can't set attribute '%s'" % name)
                self.call_function(cv.fset, [obj, value], {})
                return
            obj.attrs[name] = value
            return
        if isinstance(obj, ClassObj):
            obj.ns[name] = value
            return
        if isinstance(obj, Module):
            obj.ns[name] = value
            return
        if isinstance(obj, LocalsProxy):
            fr = object.__getattribute__(obj, "_frame")
            fr.locals[name] = value
            return
        if isinstance(obj, FuncObj):
            obj.tags[name] = value
            return
        if hasattr(obj, "sym_setattr"):
            return obj.sym_setattr(self, name, value)
        raise Unsupported("setattr on %r" % (type(obj).__name__,))

    # ---------------------------------------------------------------------------- calls
    def call(self, f, args, kwargs):
        if isinstance(f, BoundMethod):
            if isinstance(f.func, NativeFn):
                return f.func.fn(self, [f.self_] + list(args), kwargs)
            return self.call_function(f.func, [f.self_] + list(args), kwargs)
        if isinstance(f, FuncObj):
            return self.call_function(f, args, kwargs)
        if isinstance(f, ClassObj):
            return self.instantiate(f, args, kwargs)
        if isinstance(f, NativeFn):
            return f.fn(self, list(args), kwargs)
        if isinstance(f, NativeMethod):
            return self.bm.call_native_method(self, f.obj, f.name, list(args), kwargs)
        if isinstance(f, Instance):
            c = f.cls.lookup("__call__")
            if c is not MISSING:
                return self.call(BoundMethod(f, c), args, kwargs)
        if isinstance(f, StaticMethodObj):
            return self.call(f.func, args, kwargs)
        if hasattr(f, "sym_call"):
            return f.sym_call(self, list(args), kwargs)
        if f is None:
            self.raise_("TypeError", "'NoneType' object is not callable")
        raise Unsupported("call of %r" % (f,))

    def instantiate(self, cls, args, kwargs):
        if cls.is_enum:
            if len(args) != 1:
                raise Unsupported("enum call")
            v = args[0]
            if isinstance(v, Instance) and v.cls is cls:
                return v
            if isinstance(v, Sym):
                for m in cls.members.values():
                    if self.decide(self.py_eq(m.attrs["value"], v), "enum-lookup"):
                        return m
                self.raise_("ValueError", "not a valid %s" % cls.name)
            for m in cls.members.values():
                if m.attrs["value"] == v:
                    return m
            self.raise_("ValueError", "%r is not a valid %s" % (v, cls.name))
        inst = Instance(cls)
        if cls.is_exc:
            inst.attrs["args"] = tuple(args)
        init = cls.lookup("__init__")
        if init is not MISSING:
            if isinstance(init, NativeFn):
                init.fn(self, [inst] + list(args), kwargs)
            else:
                self.call_function(init, [inst] + list(args), kwargs)
        elif args or kwargs:
            if not cls.is_exc:
                self.raise_("TypeError", "%s() takes no arguments" % cls.name)
        return inst

    def bind_args(self, func, args, kwargs):
        a = func.node.args
        params = [p.arg for p in a.posonlyargs + a.args]
        loc = {}
        args = list(args)
        n = len(params)
        if len(args) > n and not a.vararg:
            self.raise_("TypeError", "%s() takes %d positional arguments but %d were given" % (func.name, n, len(args)))
        for i, p in enumerate(params):
            if i < len(args):
                loc[p] = args[i]
        if a.vararg:
            loc[a.vararg.arg] = tuple(args[n:])
        kw = dict(kwargs)
        for p in params:
            if p in kw:
                if p in loc:
                    self.raise_("TypeError", "%s() got multiple values for argument '%s'" % (func.name, p))
                loc[p] = kw.pop(p)
        nd = len(func.defaults)
        for i, p in enumerate(params):
            if p not in loc:
                di = i - (n - nd)
                if di >= 0:
                    loc[p] = func.defaults[di]
                else:
                    self.raise_("TypeError", "%s() missing required argument '%s'" % (func.name, p))
        for i, p in enumerate(a.kwonlyargs):
            if p.arg in kw:
                loc[p.arg] = kw.pop(p.arg)
            elif func.kwdefaults[i] is not MISSING:
                loc[p.arg] = func.kwdefaults[i]
            else:
                self.raise_("TypeError", "%s() missing keyword-only argument '%s'" % (func.name, p.arg))
        if a.kwarg:
            loc[a.kwarg.arg] = kw
        elif kw:
            self.raise_("TypeError", "%s() got an unexpected keyword argument '%s'" % (func.name, list(kw)[0]))
        return loc

    def run_coroutine(self, co):
        if co.started:
            self.raise_("RuntimeError", "cannot reuse already awaited coroutine")
        co.started = True
        return self.call_function(co.func, co.args, co.kwargs, run_async=True)

    def call_function(self, func, args, kwargs, force_body=False, run_async=False):
        if isinstance(func, NativeFn):
            return func.fn(self, list(args), kwargs)
        if func.is_async and not run_async:
            # validate the call like CPython does (TypeError at call time), run at await time
            self.bind_args(func, args, kwargs)
            return CoroutineObj(func, list(args), dict(kwargs))
        if not force_body:
            s = self.summaries.get(func.key)
            if s is not None:
                self.used_summaries.add(func.key)
                self.mode_stack.append("summary")
                if not hasattr(self, "summary_names"):
                    self.summary_names = []
                self.summary_names.append(func.key.split(":")[1])
                try:
                    return self.call_function(s, args, kwargs, force_body=True, run_async=True)
                finally:
                    self.mode_stack.pop()
                    self.summary_names.pop()
        if self.trace_calls is not None:
            self.trace_calls.append(func.key)
        self.reached_functions.add(func.key)
        if func.localnames is None:
            func.localnames, func.globalnames = collect_locals(func.node)
        loc = self.bind_args(func, args, kwargs)
        frame = Frame("function", func.module, func.closure, func, loc, func.localnames)
        frame.globals_decl = func.globalnames
        if args:
            frame.self_ = args[0]
        self.call_depth += 1
        if self.call_depth > 120:
            raise Unsupported("call depth exceeded (recursion without contract?) at %s" % func.key)
        try:
            if isinstance(func.node, ast.Lambda):
                return self.eval(func.node.body, frame)
            if self.is_generator(func):
                # generator functions are evaluated EAGERLY: the body runs to its end when the generator is created and the
                # yielded values are handed over as a list (listed among the assumptions: side effects of a generator body
                # are not interleaved with its consumer)
                frame.yields = []
                try:
                    self.exec_block(func.node.body, frame)
                except ReturnEx:
                    pass
                return frame.yields
            try:
                self.exec_block(func.node.body, frame)
            except ReturnEx as r:
                return r.v
            return None
        finally:
            self.call_depth -= 1

    def is_generator(self, func):
        g = getattr(func, "_is_gen", None)
        if g is None:
            def has_yield(node):
                for ch in ast.iter_child_nodes(node):
                    if isinstance(ch, (ast.FunctionDef, ast.AsyncFunctionDef, ast.Lambda, ast.ClassDef)):
                        continue
                    if isinstance(ch, (ast.Yield, ast.YieldFrom)) or has_yield(ch):
                        return True
                return False
            g = has_yield(func.node) if not isinstance(func.node, ast.Lambda) else False
            func._is_gen = g
        return g

    def e_Yield(self, e, frame):
        f = frame
        while f is not None and not hasattr(f, "yields"):
            f = f.closure if f.kind == "comp" else None
        if f is None:
            raise Unsupported("yield outside an eagerly evaluated generator function")
        f.yields.append(self.eval(e.value, frame) if e.value is not None else None)
        return None

    def e_YieldFrom(self, e, frame):
        f = frame
        while f is not None and not hasattr(f, "yields"):
            f = f.closure if f.kind == "comp" else None
        if f is None:
            raise Unsupported("yield from outside an eagerly evaluated generator function")
        f.yields.extend(self.iterate_concrete(self.eval(e.value, frame)))
        return None

    # ----------------------------------------------------------------------- statements
    def exec_block(self, stmts, frame):
        for i, st in enumerate(stmts):
            if getattr(self, "guarded", False) and isinstance(st, ast.If) and not st.orelse and len(st.body) == 1 \
                    and isinstance(st.body[0], ast.Continue) and i + 1 < len(stmts) and self._guarded_update(stmts[i + 1:]):
                # `if c: continue` followed only by updates that can be applied under a guard: the rest of the loop body
                # happens iff not c -- executed as ONE guarded update instead of a fork per iteration
                neg = ast.If(test=ast.UnaryOp(op=ast.Not(), operand=st.test), body=list(stmts[i + 1:]), orelse=[])
                ast.copy_location(neg, st)
                ast.fix_missing_locations(neg)
                self.exec_stmt(neg, frame)
                return
            self.exec_stmt(st, frame)

    def exec_stmt(self, st, frame):
        m = getattr(self, "s_" + type(st).__name__, None)
        if m is None:
            raise Unsupported("statement %s at %s:%d" % (type(st).__name__, frame.module.name, st.lineno))
        self.ctx.loc = (frame.module.name, st.lineno)
        return m(st, frame)

    def s_Pass(self, st, frame):
        pass

    def s_Expr(self, st, frame):
        v = st.value
        if isinstance(v, ast.Constant):
            return  # docstring
        self.eval(v, frame)

    def s_Return(self, st, frame):
        raise ReturnEx(self.eval(st.value, frame) if st.value is not None else None)

    def s_Break(self, st, frame):
        raise BreakEx()

    def s_Continue(self, st, frame):
        raise ContinueEx()

    def s_Global(self, st, frame):
        frame.globals_decl.update(st.names)

    def s_Nonlocal(self, st, frame):
        raise Unsupported("nonlocal")

    def s_Assert(self, st, frame):
        v = self.eval(st.test, frame)
        if not self.decide(v if isinstance(v, (bool, SymBool)) else self.truth(v), "assert"):
            self.raise_("AssertionError", *( [self.eval(st.msg, frame)] if st.msg is not None else []))

    def s_Delete(self, st, frame):
        for t in st.targets:
            if isinstance(t, ast.Name):
                self.del_name(frame, t.id)
            elif isinstance(t, ast.Subscript):
                obj = self.eval(t.value, frame)
                k = self.eval(t.slice, frame)
                try:
                    del obj[k]
                except (KeyError, IndexError) as e:
                    self.raise_(type(e).__name__, *e.args)
            elif isinstance(t, ast.Attribute):
                obj = self.eval(t.value, frame)
                if isinstance(obj, Instance) and t.attr in obj.attrs:
                    del obj.attrs[t.attr]
                else:
                    self.raise_("AttributeError", t.attr)
            else:
                raise Unsupported("del target")

    def s_Import(self, st, frame):
        for a in st.names:
            mod = self.import_module(a.name)
            if a.asname:
                self.store_name(frame, a.asname, mod)
            else:
                top = a.name.split(".")[0]
                self.store_name(frame, top, self.import_module(top) if "." in a.name else mod)

    def s_ImportFrom(self, st, frame):
        if st.module == "__future__":
            return
        name = self.resolve_relative(frame, st.level, st.module) if st.level else st.module
        mod = self.import_module(name)
        for a in st.names:
            if a.name == "*":
                for k, v in mod.ns.items():
                    if not k.startswith("_"):
                        self.store_name(frame, k, v)
                continue
            if a.name in mod.ns:
                v = mod.ns[a.name]
            else:
                if mod.is_stub:
                    v = self.bm.opaque(mod.name + "." + a.name)
                else:
                    try:
                        v = self.import_module(name + "." + a.name)
                    except PyRaise:
                        self.raise_("ImportError", "cannot import name %r from %r" % (a.name, name))
            self.store_name(frame, a.asname or a.name, v)

    def s_FunctionDef(self, st, frame):
        f = self.make_function(st, frame)
        for d in reversed(st.decorator_list):
            f = self.apply_decorator(d, f, frame)
        self.store_name(frame, st.name, f)

    s_AsyncFunctionDef = s_FunctionDef

    def make_function(self, node, frame, name=None):
        a = node.args
        defaults = [self.eval(d, frame) for d in a.defaults]
        kwdefaults = [self.eval(d, frame) if d is not None else MISSING for d in a.kw_defaults]
        name = name or getattr(node, "name", "<lambda>")
        closure = frame
        while closure is not None and closure.kind == "class":
            closure = closure.closure
        if frame.kind == "class":
            qual = frame.qualname + "." + name
        elif frame.kind in ("function", "comp") and frame.func is not None:
            qual = frame.func.qualname + ".<locals>." + name
        else:
            qual = name
        f = FuncObj(node, frame.module, closure if closure is not None and closure.kind != "module" else None,
                    defaults, kwdefaults, name, qual)
        if frame.kind in ("function", "comp"):
            f.cls = frame.func.cls if frame.func is not None else None
        return f

    def apply_decorator(self, d, f, frame):
        dn = None
        if isinstance(d, ast.Name):
            dn = d.id
        elif isinstance(d, ast.Attribute):
            dn = d.attr
        if dn == "property" and isinstance(d, ast.Name):
            return PropertyObj(f)
        if dn == "setter" and isinstance(d, ast.Attribute):
            p = self.eval(d.value, frame)
            return PropertyObj(p.fget, f)
        if dn == "staticmethod":
            return StaticMethodObj(f)
        if dn == "classmethod":
            return ClassMethodObj(f)
        if dn in ("abstractmethod", "dataclass"):
            return f
        dv = self.eval(d, frame)
        return self.call(dv, [f], {})

    def s_ClassDef(self, st, frame):
        bases = []
        for b in st.bases:
            bv = self.eval(b, frame)
            if isinstance(bv, ClassObj):
                bases.append(bv)
            elif getattr(bv, "is_opaque", False) or bv is None:
                continue
            else:
                raise Unsupported("base class %r" % (bv,))
        cframe = Frame("class", frame.module, frame)
        cframe.qualname = (frame.qualname + "." if frame.kind == "class" else
                           (frame.func.qualname + ".<locals>." if frame.kind == "function" else "")) + st.name
        self.exec_block(st.body, cframe)
        if not bases:
            bases = [self.builtins["object"]]
        cls = ClassObj(st.name, bases, cframe.locals, frame.module, cframe.qualname)
        for k, v in list(cls.ns.items()):
            for fobj in self._funcs_of(v):
                if fobj.cls is None:
                    fobj.cls = cls
        if cls.is_enum:
            self.bm.finish_enum(self, cls)
        for d in reversed(st.decorator_list):
            dn = d.id if isinstance(d, ast.Name) else (d.attr if isinstance(d, ast.Attribute) else None)
            if dn == "dataclass":
                continue
            cls = self.call(self.eval(d, frame), [cls], {})
        self.store_name(frame, st.name, cls)

    def _funcs_of(self, v):
        if isinstance(v, FuncObj):
            return [v]
        if isinstance(v, PropertyObj):
            return [x for x in (v.fget, v.fset) if isinstance(x, FuncObj)]
        if isinstance(v, (StaticMethodObj, ClassMethodObj)):
            return [v.func] if isinstance(v.func, FuncObj) else []
        return []

    def s_Assign(self, st, frame):
        v = self.eval(st.value, frame)
        for t in st.targets:
            self.assign(t, v, frame)

    def s_AnnAssign(self, st, frame):
        if st.value is not None:
            self.assign(st.target, self.eval(st.value, frame), frame)

    def s_AugAssign(self, st, frame):
        t = st.target
        if isinstance(t, ast.Name):
            cur = self.load_name(frame, t.id)
            self.store_name(frame, t.id, self.binop(st.op, cur, self.eval(st.value, frame), inplace=True))
        elif isinstance(t, ast.Attribute):
            obj = self.eval(t.value, frame)
            cur = self.getattr_(obj, t.attr)
            self.setattr_(obj, t.attr, self.binop(st.op, cur, self.eval(st.value, frame), inplace=True))
        elif isinstance(t, ast.Subscript):
            obj = self.eval(t.value, frame)
            k = self.eval(t.slice, frame)
            cur = self.subscript(obj, k)
            self.store_subscript(obj, k, self.binop(st.op, cur, self.eval(st.value, frame), inplace=True))
        else:
            raise Unsupported("augassign target")

    def assign(self, t, v, frame):
        if isinstance(t, ast.Name):
            self.store_name(frame, t.id, v)
        elif isinstance(t, ast.Attribute):
            self.setattr_(self.eval(t.value, frame), t.attr, v)
        elif isinstance(t, ast.Subscript):
            self.store_subscript(self.eval(t.value, frame), self.eval(t.slice, frame), v)
        elif isinstance(t, (ast.Tuple, ast.List)):
            items = self.unpack(v, len(t.elts), any(isinstance(e, ast.Starred) for e in t.elts), t)
            for e, x in zip(t.elts, items):
                if isinstance(e, ast.Starred):
                    self.assign(e.value, x, frame)
                else:
                    self.assign(e, x, frame)
        else:
            raise Unsupported("assignment target %s" % type(t).__name__)

    def unpack(self, v, n, starred, tnode=None):
        if hasattr(v, "sym_unpack"):
            return v.sym_unpack(self, n)
        items = self.iterate_concrete(v)
        if starred:
            idx = [i for i, e in enumerate(tnode.elts) if isinstance(e, ast.Starred)][0]
            after = n - idx - 1
            if len(items) < n - 1:
                self.raise_("ValueError", "not enough values to unpack")
            return items[:idx] + [items[idx: len(items) - after]] + items[len(items) - after:]
        if len(items) != n:
            self.raise_("ValueError", "too many values to unpack (expected %d)" % n if len(items) > n
                        else "not enough values to unpack (expected %d, got %d)" % (n, len(items)))
        return items

    def iterate_concrete(self, v):
        if isinstance(v, (list, tuple)):
            return list(v)
        if isinstance(v, (dict, set, frozenset, range, str)):
            return list(v)
        if isinstance(v, bytes):
            return list(v)
        if isinstance(v, SymBytes) and isinstance(v.length, int):
            return [bytes_index(v, i) for i in range(v.length)]
        if hasattr(v, "sym_iter"):
            return v.sym_iter(self)
        if isinstance(v, ClassObj) and v.is_enum and v.members is not None:
            return list(v.members.values())
        if isinstance(v, Instance):
            f = v.cls.lookup("__iter__")
            if f is not MISSING:
                return self.iterate_concrete(self.call(BoundMethod(v, f), [], {}))
        if v is None or isinstance(v, (int, float, Sym)):
            self.raise_("TypeError", "cannot unpack non-iterable %s object" % type(v).__name__)
        raise Unsupported("iteration over %r" % (type(v).__name__,))

    def _guarded_update(self, stmts):
        """the statement list consists only of updates that can be applied under a guard"""
        for x in stmts:
            if isinstance(x, ast.Assign) and len(x.targets) == 1:
                t = x.targets[0]
                if isinstance(t, ast.Subscript) and isinstance(t.value, ast.Name) and self._simple_elt(t.slice) and self._simple_elt(x.value):
                    continue
                if isinstance(t, ast.Name) and isinstance(x.value, ast.Constant) and isinstance(x.value.value, (bool, int)):
                    continue
                return False
            if isinstance(x, ast.Expr) and isinstance(x.value, ast.Call) and isinstance(x.value.func, ast.Attribute) \
                    and x.value.func.attr == "append" and isinstance(x.value.func.value, ast.Name) \
                    and len(x.value.args) == 1 and self._simple_elt(x.value.args[0]):
                continue
            return False
        return bool(stmts)

    def sym_truth(self, v):
        """truth value as a term, without forking; None when that is not possible"""
        if isinstance(v, bool):
            return v
        if v is None:
            return False
        if isinstance(v, SymBool):
            return v
        if isinstance(v, (list, tuple, dict, str, bytes, set, frozenset)):
            return len(v) != 0
        if isinstance(v, int):
            return v != 0
        if hasattr(v, "sym_truth"):
            return v.sym_truth()
        if isinstance(v, SymChoice):
            return self.sym_truth(v.map(lambda x: bool(x)))
        return None

    def merged_boolop(self, test, frame):
        """`a and b` / `a or b` as ONE term when every operand has a fork-free truth value and evaluates without raising
        (guarded mode, test of a guarded update only: the operands are evaluated unconditionally)"""
        terms = []
        for x in test.values:
            try:
                v = self.eval(x, frame)
            except (PyRaise, Unsupported):
                return None
            t = self.sym_truth(v)
            if t is None:
                return None
            terms.append(t)
        return b_and(*terms) if isinstance(test.op, ast.And) else b_or(*terms)

    def s_If(self, st, frame):
        c = None
        if getattr(self, "guarded", False) and not st.orelse and isinstance(st.test, ast.BoolOp) and self._guarded_update(st.body):
            c = self.merged_boolop(st.test, frame)
        if c is None:
            c = self.eval(st.test, frame)
        if getattr(self, "guarded", False) and not st.orelse and self._guarded_update(st.body):
            if isinstance(c, SymChoice):
                c = c.map(lambda x: bool(x))
            if isinstance(c, SymBool):
                # merge instead of forking: apply the updates under the guard `c`
                self.guard_stack.append(c)
                try:
                    for x in st.body:
                        if isinstance(x, ast.Assign) and isinstance(x.targets[0], ast.Name):
                            name = x.targets[0].id
                            old = self.load_name(frame, name)
                            new = x.value.value
                            self.store_name(frame, name, ite(c, new, old) if isinstance(old, (bool, int, SymBool, SymInt)) else None)
                            if not isinstance(old, (bool, int, SymBool, SymInt)):
                                raise Unsupported("guarded assignment to a non-numeric variable")
                        elif isinstance(x, ast.Assign):
                            nm = x.targets[0].value.id
                            obj = self.load_name(frame, nm)
                            if isinstance(obj, dict):
                                g = self.bm.GDict()
                                for k, v in obj.items():
                                    g.entries[k] = (True, v)
                                obj = g
                                self.store_name(frame, nm, obj)
                            self.store_subscript(obj, self.eval(x.targets[0].slice, frame), self.eval(x.value, frame))
                        else:
                            nm = x.value.func.value.id
                            obj = self.load_name(frame, nm)
                            if isinstance(obj, list):
                                obj = self.bm.GList([(True, v) for v in obj])
                                self.store_name(frame, nm, obj)
                            obj.sym_method(self, "append", [self.eval(x.value.args[0], frame)], {})
                finally:
                    self.guard_stack.pop()
                return
        if self.truth(c):
            self.exec_block(st.body, frame)
        else:
            self.exec_block(st.orelse, frame)

    # --- loops
    def loop_key(self, frame, st):
        func = frame.func
        if func is None:
            return None
        ords = self.loop_ordinals.get(id(func.node))
        if ords is None:
            ords = {}
            k = 0
            for n in ast.walk(func.node):
                if isinstance(n, (ast.For, ast.AsyncFor, ast.While)):
                    ords[id(n)] = None
            # source order
            loops = [n for n in ast.walk(func.node) if isinstance(n, (ast.For, ast.AsyncFor, ast.While))]
            loops.sort(key=lambda n: (n.lineno, n.col_offset))
            for k, n in enumerate(loops):
                ords[id(n)] = k
            self.loop_ordinals[id(func.node)] = ords
        o = ords.get(id(st))
        if o is None:
            return None
        return (func.key, o)

    def usable_contract(self, st, frame, lc):
        """bounded fall-back mode: a loop contract written for a different loop header is not used at all"""
        if lc is None or self.loop_bound is None or lc[0] is None:
            return lc
        if " ".join(lc[0].split()) != " ".join(self.loop_header_text(st, frame).split()):
            self.stale_loops.add("%s:%d" % (frame.module.name, st.lineno))
            return None
        return lc

    def beyond_bound(self, frame, st):
        """bounded fall-back mode: the path is abandoned after `loop_bound` iterations of a loop without a usable contract"""
        self.stale_loops.add("%s:%d" % (frame.module.name, st.lineno))
        raise PathEnd("beyond the fall-back loop bound")

    def s_While(self, st, frame):
        key = self.loop_key(frame, st)
        lc0 = self.loop_contracts.get(key) if key else None
        lc = self.usable_contract(st, frame, lc0)
        stale = lc0 is not None and lc is None
        if lc is not None:
            return self.cut_loop(st, frame, key, lc, None)
        n = 0
        broke = False
        while True:
            c = self.eval(st.test, frame)
            if not self.truth(c):
                break
            n += 1
            if self.loop_bound is not None and n > self.loop_bound and (stale or not is_plain(c)):
                self.beyond_bound(frame, st)
            if n > self.max_unroll:
                raise Unsupported("loop at %s:%d needs an invariant (unrolled %d times)" % (frame.module.name, st.lineno, n))
            try:
                self.exec_block(st.body, frame)
            except BreakEx:
                broke = True
                break
            except ContinueEx:
                continue
        if not broke:
            self.exec_block(st.orelse, frame)

    def s_For(self, st, frame):
        it = self.eval(st.iter, frame)
        key = self.loop_key(frame, st)
        lc = self.loop_contracts.get(key) if key else None
        lc = self.usable_contract(st, frame, lc)
        if lc is not None:
            return self.cut_loop(st, frame, key, lc, it)
        if hasattr(it, "sym_len") and not isinstance(it, self.bm.GList) and not isinstance(it.sym_len(self), int):
            # symbolic-length iterable without contract: unroll while feasible
            n = it.sym_len(self)
            k = 0
            broke = False
            while self.decide(cmp_op("<", k, n), "for-unroll"):
                if self.loop_bound is not None and k >= self.loop_bound:
                    self.beyond_bound(frame, st)
                if k > 40:
                    raise Unsupported("for loop at %s:%d needs an invariant" % (frame.module.name, st.lineno))
                self.assign(st.target, it.sym_item(self, k), frame)
                k += 1
                try:
                    self.exec_block(st.body, frame)
                except BreakEx:
                    broke = True
                    break
                except ContinueEx:
                    continue
            if not broke:
                self.exec_block(st.orelse, frame)
            return
        if isinstance(it, self.bm.GList):
            broke = False
            for g, x in it.items:
                self.assign(st.target, x, frame)
                if g is True:
                    try:
                        self.exec_block(st.body, frame)
                    except BreakEx:
                        broke = True
                        break
                    except ContinueEx:
                        continue
                    continue
                self.guard_stack.append(g)
                try:
                    try:
                        self.exec_block(st.body, frame)
                    finally:
                        self.guard_stack.pop()
                except ContinueEx:
                    continue
                except (PyRaise, ReturnEx, BreakEx) as ex:
                    # speculative body of a guarded element: leaving the loop is real iff the element exists
                    if self.decide(g, "guarded-loop-exit"):
                        if isinstance(ex, BreakEx):
                            broke = True
                            break
                        raise
                    continue
            if not broke:
                self.exec_block(st.orelse, frame)
            return
        items = self.iterate_live(it)
        broke = False
        for x in items:
            self.assign(st.target, x, frame)
            try:
                self.exec_block(st.body, frame)
            except BreakEx:
                broke = True
                break
            except ContinueEx:
                continue
        if not broke:
            self.exec_block(st.orelse, frame)

    s_AsyncFor = s_For

    def iterate_live(self, it):
        """iteration that observes appends during the loop for lists (python semantics)"""
        if isinstance(it, list):
            def gen():
                i = 0
                while i < len(it):
                    yield it[i]
                    i += 1
            return gen()
        return iter(self.iterate_concrete(it))

    def cut_loop(self, st, frame, key, lc, it):
        """Loop cut at an inductive invariant (no unrolling).

        lc = (header_text, havoc, inv).  inv(L[, k]) is proved on entry, the havoc
        function assigns arbitrary values to everything the loop may modify, inv is
        assumed, then either one arbitrary iteration is executed and inv re-proved
        (path ends), or the loop exits."""
        header, havoc, inv = lc
        self.used_loop_contracts.add(key)
        src_hdr = self.loop_header_text(st, frame)
        if header is not None and " ".join(header.split()) != " ".join(src_hdr.split()):
            # the loop was edited: the contract is still tried, but a failing obligation is only believed when the
            # counterexample replays natively on the real code (otherwise: undecided, CONTRACT-MISMATCH)
            self.ctx.header_mismatch = "loop contract for %s#%d expects header %r, source has %r" % (key[0], key[1], header, src_hdr)
        L = LocalsProxy(frame)
        name = "%s#loop%d" % (key[0].split(":")[1], key[1])
        is_for = it is not None
        if is_for:
            if hasattr(it, "sym_len"):
                n = it.sym_len(self)
                item = lambda k: it.sym_item(self, k)
            else:
                seq = self.iterate_concrete(it)
                n = len(seq)
                item = None
            k0 = 0
            self.ctx.prove("inv-init:" + name, self.spec_call(inv, [L, k0]))
            k = self.ctx.fresh_int("k!" + name)
            self.ctx.assume(b_and(cmp_op(">=", k, 0), cmp_op("<=", k, n)))
            self.spec_call(havoc, [L, k], spec=False)
            self.ctx.assume(self.spec_call(inv, [L, k]))
            if self.decide(cmp_op("<", k, n), "loop-iter"):
                if item is None:
                    # concrete sequence, symbolic index: case split
                    chosen = None
                    for j in range(len(seq)):
                        if self.decide(cmp_op("==", k, j), "loop-index"):
                            chosen = seq[j]
                            k = j
                            break
                    if chosen is None:
                        raise PathEnd("loop index")
                    self.assign(st.target, chosen, frame)
                else:
                    self.assign(st.target, item(k), frame)
                try:
                    self.exec_block(st.body, frame)
                except ContinueEx:
                    pass
                except BreakEx:
                    return  # leaves the loop; for-else skipped
                self.ctx.prove("inv-step:" + name, self.spec_call(inv, [L, int_add(k, 1)]))
                raise PathEnd("loop cut")
            self.exec_block(st.orelse, frame)
            return
        self.ctx.prove("inv-init:" + name, self.spec_call(inv, [L]))
        self.spec_call(havoc, [L], spec=False)
        self.ctx.assume(self.spec_call(inv, [L]))
        c = self.eval(st.test, frame)
        if self.truth(c):
            try:
                self.exec_block(st.body, frame)
            except ContinueEx:
                pass
            except BreakEx:
                return
            self.ctx.prove("inv-step:" + name, self.spec_call(inv, [L]))
            raise PathEnd("loop cut")
        self.exec_block(st.orelse, frame)

    def spec_call(self, f, args, spec=True):
        if spec:
            self.pure += 1
        try:
            return self.call(f, args, {})
        finally:
            if spec:
                self.pure -= 1

    def loop_header_text(self, st, frame):
        # canonical single-line form (independent of line breaks / trailing commas)
        if isinstance(st, ast.While):
            return "while " + ast.unparse(st.test)
        t = ast.unparse(st.target)
        if t.startswith("(") and t.endswith(")"):
            t = t[1:-1]
        return "for %s in %s" % (t, ast.unparse(st.iter))

    # --- with / try / raise
    def s_With(self, st, frame):
        self._with(st, frame, 0)

    s_AsyncWith = s_With

    def _with(self, st, frame, i):
        if i == len(st.items):
            return self.exec_block(st.body, frame)
        item = st.items[i]
        mgr = self.eval(item.context_expr, frame)
        is_async = isinstance(st, ast.AsyncWith)
        enter = self.getattr_(mgr, "__aenter__" if is_async else "__enter__")
        exit_ = self.getattr_(mgr, "__aexit__" if is_async else "__exit__")
        def aw(x):
            return self.run_coroutine(x) if isinstance(x, CoroutineObj) else x

        v = aw(self.call(enter, [], {}))
        if item.optional_vars is not None:
            self.assign(item.optional_vars, v, frame)
        try:
            self._with(st, frame, i + 1)
        except PyRaise as e:
            sup = aw(self.call(exit_, [e.exc.cls, e.exc, None], {}))
            if not self.truth(sup):
                raise
            return
        except (ReturnEx, BreakEx, ContinueEx):
            aw(self.call(exit_, [None, None, None], {}))
            raise
        aw(self.call(exit_, [None, None, None], {}))

    def s_Raise(self, st, frame):
        if st.exc is None:
            if frame.cur_exc is None:
                self.raise_("RuntimeError", "No active exception to reraise")
            raise PyRaise(frame.cur_exc)
        e = self.eval(st.exc, frame)
        if isinstance(e, ClassObj):
            e = self.instantiate(e, [], {})
        if not isinstance(e, Instance) or not e.cls.is_exc:
            raise Unsupported("raise of non-exception %r" % (e,))
        raise PyRaise(e)

    def exc_matches(self, exc, spec):
        if isinstance(spec, tuple):
            return any(self.exc_matches(exc, s) for s in spec)
        if isinstance(spec, ClassObj):
            return exc.cls.issubclass(spec)
        raise Unsupported("except clause with %r" % (spec,))

    def s_Try(self, st, frame):
        try:
            try:
                self.exec_block(st.body, frame)
            except PyRaise as e:
                handled = False
                for h in st.handlers:
                    if h.type is None or self.exc_matches(e.exc, self.eval(h.type, frame)):
                        handled = True
                        if h.name:
                            self.store_name(frame, h.name, e.exc)
                        saved = frame.cur_exc
                        frame.cur_exc = e.exc
                        try:
                            self.exec_block(h.body, frame)
                        finally:
                            frame.cur_exc = saved
                        break
                if not handled:
                    raise
            else:
                self.exec_block(st.orelse, frame)
        except (PathEnd, Unsupported, ContractMismatch):
            raise
        except (PyRaise, ReturnEx, BreakEx, ContinueEx):
            if st.finalbody:
                self.exec_block(st.finalbody, frame)
            raise
        else:
            if st.finalbody:
                self.exec_block(st.finalbody, frame)

    # ------------------------------------------------------------------------- names
    def load_name(self, frame, name):
        f = frame
        first = True
        while f is not None:
            if f.kind == "module":
                break
            if name in f.globals_decl:
                break
            if name in f.locals:
                return f.locals[name]
            if f.kind == "function" and name in f.localnames and first:
                self.raise_("UnboundLocalError", "local variable '%s' referenced before assignment" % name)
            first = False
            f = f.closure
        ns = frame.module.ns
        if name in ns:
            return ns[name]
        if name in self.builtins:
            return self.builtins[name]
        if name == "__class__" and frame.func is not None and frame.func.cls is not None:
            return frame.func.cls
        self.raise_("NameError", "name '%s' is not defined" % name)

    def store_name(self, frame, name, v):
        if name in frame.globals_decl:
            frame.module.ns[name] = v
        else:
            frame.locals[name] = v

    def del_name(self, frame, name):
        if name in frame.locals:
            del frame.locals[name]
        else:
            self.raise_("NameError", name)

    # -------------------------------------------------------------------- expressions
    def eval(self, e, frame):
        m = getattr(self, "e_" + type(e).__name__, None)
        if m is None:
            raise Unsupported("expression %s at %s:%d" % (type(e).__name__, frame.module.name, e.lineno))
        return m(e, frame)

    def e_Constant(self, e, frame):
        return e.value

    def e_Name(self, e, frame):
        return self.load_name(frame, e.id)

    def e_Tuple(self, e, frame):
        return tuple(self.eval_seq(e.elts, frame))

    def e_List(self, e, frame):
        return self.eval_seq(e.elts, frame)

    def e_Set(self, e, frame):
        return set(self.eval_seq(e.elts, frame))

    def eval_seq(self, elts, frame):
        out = []
        for x in elts:
            if isinstance(x, ast.Starred):
                out.extend(self.iterate_concrete(self.eval(x.value, frame)))
            else:
                out.append(self.eval(x, frame))
        return out

    def e_Dict(self, e, frame):
        d = {}
        for k, v in zip(e.keys, e.values):
            if k is None:
                d.update(self.eval(v, frame))
            else:
                kk = self.eval(k, frame)
                if isinstance(kk, Sym):
                    raise Unsupported("symbolic dict key")
                d[kk] = self.eval(v, frame)
        return d

    def e_Attribute(self, e, frame):
        return self.getattr_(self.eval(e.value, frame), e.attr)

    def e_Await(self, e, frame):
        v = self.eval(e.value, frame)
        if isinstance(v, CoroutineObj):
            return self.run_coroutine(v)
        if hasattr(v, "sym_await"):
            return v.sym_await(self)
        return v

    def e_Lambda(self, e, frame):
        return self.make_function(e, frame, "<lambda>")

    def e_IfExp(self, e, frame):
        c = self.eval(e.test, frame)
        if self.pure and isinstance(c, (SymBool, SymInt)):
            try:
                a = self.eval(e.body, frame)
                b = self.eval(e.orelse, frame)
                return ite(c if isinstance(c, SymBool) else mk_bool(c.e != 0), a, b)
            except (Unsupported, PyRaise):
                pass
        return self.eval(e.body, frame) if self.truth(c) else self.eval(e.orelse, frame)

    def e_BoolOp(self, e, frame):
        is_and = isinstance(e.op, ast.And)
        if self.pure:
            vals = []
            ok = True
            for x in e.values:
                v = self.eval(x, frame)
                if isinstance(v, (bool, SymBool)):
                    vals.append(v)
                    if isinstance(v, bool) and v != is_and:
                        break  # short-circuit on concrete
                else:
                    ok = False
                    vals.append(v)
                    break
            if ok:
                return b_and(*vals) if is_and else b_or(*vals)
            # fall back to exact semantics
            last = None
            for v in vals:
                last = v
                t = self.truth(v)
                if t != is_and:
                    return v
            if len(vals) == len(e.values):
                return last
            rest = e.values[len(vals):]
            for x in rest:
                last = self.eval(x, frame)
                if self.truth(last) != is_and:
                    return last
            return last
        last = None
        n = len(e.values)
        for i, x in enumerate(e.values):
            last = self.eval(x, frame)
            if i == n - 1:
                return last          # python: the last operand is the value, no truth test
            t = self.truth(last)
            if t != is_and:
                return last if not isinstance(last, Sym) else (not is_and)
        return last

    def e_UnaryOp(self, e, frame):
        v = self.eval(e.operand, frame)
        if isinstance(e.op, ast.Not):
            if isinstance(v, (SymBool,)):
                return b_not(v)
            if self.pure and isinstance(v, SymInt):
                return mk_bool(v.e == 0)
            return not self.truth(v)
        if isinstance(e.op, ast.USub):
            if isinstance(v, SymInt):
                return int_neg(v)
            if isinstance(v, SymFloat):
                return SymFloat(z3.fpNeg(v.e))
            if isinstance(v, SymBool):
                return int_neg(mk_int(zi(v)))
            return -v
        if isinstance(e.op, ast.UAdd):
            return v
        if isinstance(e.op, ast.Invert):
            if isinstance(v, (SymInt, SymBool)):
                return int_invert(v)
            return ~v
        raise Unsupported("unary op")

    def e_BinOp(self, e, frame):
        return self.binop(e.op, self.eval(e.left, frame), self.eval(e.right, frame))

    def binop(self, op, a, b, inplace=False):
        return self.bm.binop(self, op, a, b, inplace)

    def e_Compare(self, e, frame):
        left = self.eval(e.left, frame)
        results = []
        for op, rn in zip(e.ops, e.comparators):
            right = self.eval(rn, frame)
            r = self.compare(op, left, right)
            if len(e.ops) == 1:
                return r
            if isinstance(r, bool):
                if not r:
                    return False
            elif isinstance(r, SymBool):
                results.append(r)
            else:
                if not self.truth(r):
                    return r
            left = right
        return b_and(*results)

    def compare(self, op, a, b):
        if isinstance(op, ast.Eq):
            return self.py_eq(a, b)
        if isinstance(op, ast.NotEq):
            return self.py_ne(a, b)
        if isinstance(op, ast.Is):
            return self.is_(a, b)
        if isinstance(op, ast.IsNot):
            return b_not(self.is_(a, b))
        if isinstance(op, ast.In):
            return self.contains(b, a)
        if isinstance(op, ast.NotIn):
            return b_not(self.contains(b, a))
        sym = {ast.Lt: "<", ast.LtE: "<=", ast.Gt: ">", ast.GtE: ">="}[type(op)]
        return self.bm.order(self, sym, a, b)

    def is_(self, a, b):
        if isinstance(a, Sym) or isinstance(b, Sym):
            if isinstance(a, SymBool) and isinstance(b, bool) or isinstance(b, SymBool) and isinstance(a, bool):
                return self.py_eq(a, b)
            if a is None or b is None:
                return False
            return a is b
        if isinstance(a, bool) or isinstance(b, bool) or a is None or b is None:
            return a is b
        if isinstance(a, (int, str, bytes, tuple, float)) and isinstance(b, (int, str, bytes, tuple, float)):
            # identity of immutable values is an implementation detail; treat as ==
            # only where CPython guarantees it (small ints / interned) is not modelled
            if a is b:
                return True
            try:
                return type(a) is type(b) and a == b
            except Unsupported:
                return False        # distinct tuples holding symbolic items are distinct objects
        return a is b

    def e_Call(self, e, frame):
        fn = e.func
        # logging calls are dropped, arguments not evaluated (see DESIGN "what extraction drops")
        if isinstance(fn, ast.Attribute) and isinstance(fn.value, ast.Name) and fn.value.id in LOG_NAMES \
                and fn.attr in ("debug", "info", "warning", "error", "exception", "critical", "log"):
            # the logging call itself is dropped; its argument expressions are evaluated like CPython does
            # (an f-string argument calls __str__/__repr__ eagerly and may raise)
            for a in list(e.args) + [k.value for k in e.keywords]:
                try:
                    self.eval(a.value if isinstance(a, ast.Starred) else a, frame)
                except Unsupported:
                    self.log_args_skipped = getattr(self, "log_args_skipped", 0) + 1
            return None
        if isinstance(fn, ast.Name) and fn.id == "print" and "print" not in frame.locals:
            return None
        if isinstance(fn, ast.Name) and fn.id == "super" and not e.args:
            func = frame.func
            f = frame
            while func is not None and func.cls is None and f.closure is not None:
                f = f.closure
                func = f.func
            if func is None or func.cls is None:
                raise Unsupported("super() outside a method")
            return SuperObj(func.cls, f.self_ if f.self_ is not None else frame.self_)
        if self.guard_stack and isinstance(fn, ast.Attribute) and fn.attr in ("append", "extend", "insert", "remove", "pop", "clear") \
                and isinstance(fn.value, ast.Name):
            # a plain list updated while the body of a guarded (speculatively present) element runs: the update happens
            # only if that element exists.  `name.append(x)` becomes an append under the current guard; anything else on a
            # plain list is not modelled (never applied unconditionally)
            recv = self.load_name(frame, fn.value.id)
            if isinstance(recv, list):
                if fn.attr != "append" or len(e.args) != 1 or e.keywords:
                    raise Unsupported("list.%s on a plain list under a speculative guard" % fn.attr)
                g = self.bm.GList([(True, v) for v in recv])
                self.rebind_object(frame, recv, g)
                self.store_name(frame, fn.value.id, g)
                g.sym_method(self, "append", [self.eval(e.args[0], frame)], {})
                return None
        f = self.eval(fn, frame)
        args = []
        for a in e.args:
            if isinstance(a, ast.Starred):
                args.extend(self.iterate_concrete(self.eval(a.value, frame)))
            else:
                args.append(self.eval(a, frame))
        kwargs = {}
        for k in e.keywords:
            if k.arg is None:
                d = self.eval(k.value, frame)
                if not isinstance(d, dict):
                    raise Unsupported("** of non-dict")
                kwargs.update(d)
            else:
                kwargs[k.arg] = self.eval(k.value, frame)
        if isinstance(f, NativeFn) and getattr(f, "wants_frame", False):
            return f.fn(self, args, kwargs, frame)
        return self.call(f, args, kwargs)

    def rebind_object(self, frame, old, new):
        """other local names bound to the same list object follow it when it becomes a guarded list"""
        for k, v in list(frame.locals.items()):
            if v is old:
                frame.locals[k] = new

    def e_Subscript(self, e, frame):
        obj = self.eval(e.value, frame)
        k = self.eval(e.slice, frame)
        return self.subscript(obj, k)

    def e_Slice(self, e, frame):
        lo = self.eval(e.lower, frame) if e.lower is not None else None
        hi = self.eval(e.upper, frame) if e.upper is not None else None
        st = self.eval(e.step, frame) if e.step is not None else None
        return ("__slice__", lo, hi, st)

    def subscript(self, obj, k):
        return self.bm.subscript(self, obj, k)

    def store_subscript(self, obj, k, v):
        if isinstance(obj, dict):
            if isinstance(k, Sym):
                raise Unsupported("symbolic dict key")
            obj[k] = v
            return
        if isinstance(obj, list):
            if isinstance(k, int):
                try:
                    obj[k] = v
                except IndexError:
                    self.raise_("IndexError", "list assignment index out of range")
                return
            raise Unsupported("list store with symbolic index")
        if hasattr(obj, "sym_setitem"):
            return obj.sym_setitem(self, k, v)
        if isinstance(obj, Instance):
            f = obj.cls.lookup("__setitem__")
            if f is not MISSING:
                self.call(BoundMethod(obj, f), [k, v], {})
                return
        raise Unsupported("subscript store on %r" % type(obj).__name__)

    def e_JoinedStr(self, e, frame):
        return self.bm.joined_str(self, e, frame)

    def e_FormattedValue(self, e, frame):
        return self.bm.format_value(self, e, frame)

    def e_NamedExpr(self, e, frame):
        v = self.eval(e.value, frame)
        self.assign(e.target, v, frame)
        return v

    def e_Starred(self, e, frame):
        raise Unsupported("starred expression")

    # comprehensions
    def _comp(self, gens, frame, emit):
        """emit(cframe, guard): guard is True, or (guarded-collections mode) the SymBool under which the element exists"""
        cframe = Frame("comp", frame.module, frame, frame.func)
        cframe.self_ = frame.self_
        cframe.qualname = getattr(frame, "qualname", "")
        guarded = getattr(self, "guarded", False)
        GList, GDict = self.bm.GList, self.bm.GDict

        def filters(g, guard):
            """-> new guard or None (element filtered out)"""
            for c in g.ifs:
                try:
                    v = None
                    if guarded and isinstance(c, ast.BoolOp):
                        v = self.merged_boolop(c, cframe)      # `a and b` filter as one term instead of a fork per element
                    if v is None:
                        v = self.eval(c, cframe)
                except PyRaise:
                    # the filter of a guarded element raises: real iff the element exists
                    if guard is True or self.decide(guard, "guarded-filter-raises"):
                        raise
                    return None
                if guarded and isinstance(v, SymChoice):
                    v = v.map(lambda x: bool(x))
                if guarded and isinstance(v, SymBool):
                    guard = b_and(guard, v)
                    if guard is False:
                        return None
                    continue
                if not self.truth(v):
                    return None
            return guard

        def rec(i, guard):
            if i == len(gens):
                emit(cframe, guard)
                return
            g = gens[i]
            it = self.eval(g.iter, cframe if i > 0 else frame)
            if guarded and isinstance(it, GDict):
                it = it.to_list(self)
            if guarded and isinstance(it, GList):
                for eg, x in it.items:
                    self.assign(g.target, x, cframe)
                    g2 = filters(g, b_and(guard, eg))
                    if g2 is not None:
                        rec(i + 1, g2)
                return
            if hasattr(it, "sym_len") and not isinstance(it.sym_len(self), int):
                n = it.sym_len(self)
                k = 0
                while self.decide(cmp_op("<", k, n), "comp-unroll"):
                    if k > 40:
                        raise Unsupported("comprehension over symbolic-length iterable needs a summary")
                    self.assign(g.target, it.sym_item(self, k), cframe)
                    k += 1
                    g2 = filters(g, guard)
                    if g2 is not None:
                        rec(i + 1, g2)
                return
            for x in self.iterate_concrete(it):
                self.assign(g.target, x, cframe)
                g2 = filters(g, guard)
                if g2 is not None:
                    rec(i + 1, g2)

        rec(0, True)

    @staticmethod
    def _simple_elt(n):
        if isinstance(n, (ast.Name, ast.Constant)):
            return True
        if isinstance(n, (ast.Tuple, ast.List)):
            return all(Interp._simple_elt(x) for x in n.elts)
        if isinstance(n, ast.Dict):
            return all(Interp._simple_elt(x) for x in list(n.keys) + list(n.values) if x is not None)
        if isinstance(n, ast.Subscript):
            return Interp._simple_elt(n.value) and Interp._simple_elt(n.slice)
        if isinstance(n, ast.Attribute):
            return Interp._simple_elt(n.value)
        if isinstance(n, ast.JoinedStr):
            return all(isinstance(v, ast.Constant) or (isinstance(v, ast.FormattedValue) and Interp._simple_elt(v.value)) for v in n.values)
        return False

    def e_ListComp(self, e, frame):
        out = []
        any_guard = [False]
        simple = self._simple_elt(e.elt)

        def emit(cf, guard):
            if guard is True:
                out.append((True, self.eval(e.elt, cf)))
            elif simple:
                any_guard[0] = True
                out.append((guard, self.eval(e.elt, cf)))
            else:
                # speculative guarded construction: the element expression is evaluated without forking on
                # its guard; only an exception forks (it is real iff the guard can hold)
                try:
                    v = self.eval(e.elt, cf)
                except PyRaise:
                    if self.decide(guard, "guarded-construction-raises"):
                        raise
                    return
                any_guard[0] = True
                out.append((guard, v))

        self._comp(e.generators, frame, emit)
        if any_guard[0]:
            return self.bm.GList(out)
        return [v for _, v in out]

    e_GeneratorExp = e_ListComp

    def e_SetComp(self, e, frame):
        return set(self.e_ListComp(e, frame))

    def e_DictComp(self, e, frame):
        out = self.bm.GDict()

        def emit(cf, guard):
            k = self.eval(e.key, cf)
            if isinstance(k, Sym):
                raise Unsupported("symbolic dict key")
            v = self.eval(e.value, cf)
            if guard is not True and not (self._simple_elt(e.value)):
                if not self.decide(guard, "guarded-construction"):
                    return
                guard = True
            if k in out.entries and guard is True:
                out.entries[k] = (True, v)
            else:
                out.put(k, guard, v)

        self._comp(e.generators, frame, emit)
        if all(g is True for g, _ in out.entries.values()):
            return {k: v for k, (g, v) in out.entries.items()}
        return out
