"""Path exploration, obligations, solver back ends, harness registry."""
import ast
import json
import os
import subprocess
import sys
import tempfile
import time
import traceback
import hashlib
import z3

from .values import *  # noqa
from . import values as V
from .interp import (
    Interp, Module, ClassObj, Instance, FuncObj, BoundMethod, NativeFn, PyRaise, PathEnd,
    ContractMismatch, MISSING, LocalsProxy, describe_exc, StaticMethodObj, PropertyObj,
)

REPO_SRC = os.environ.get("PYVC_REPO_SRC", "/repo/src")
VERIF = os.path.dirname(os.path.dirname(os.path.abspath(__file__)))
CONTRACTS_DIR = os.path.join(VERIF, "contracts")


class Obligation:
    __slots__ = ("name", "status", "model", "detail", "solver", "time", "path", "loc", "fresh", "known")

    def __init__(self, name):
        self.name = name
        self.status = None  # 'proved' | 'refuted' | 'unknown'
        self.model = None
        self.detail = ""
        self.solver = ""
        self.time = 0.0
        self.path = None
        self.loc = None
        self.fresh = None
        self.known = None


class PathCtx:
    """one execution path"""

    def __init__(self, explorer, prefix):
        self.ex = explorer
        self.prefix = prefix
        self.taken = []
        self.solver = z3.Solver()
        self.solver.set("timeout", explorer.decide_timeout_ms)
        self.pc = []
        self.nfresh = 0
        self.ids = 0
        self.fresh_vars = {}  # name -> (kind, z3 term / SymBytes)
        self.obligations = []
        self.loc = None
        self.events = []
        self.clock = None
        self.polarity_summary = 0
        self.covers = []
        V.FACTS[:] = [self.fact]
        self._facts_seen = set()
        self.suspend_hook = None
        self.sleep_hook = None
        self.known = None
        self.header_mismatch = None

    # --- facts / assumptions
    def fact(self, f):
        k = f.get_id() if hasattr(f, "get_id") else id(f)
        if k in self._facts_seen:
            return
        self._facts_seen.add(k)
        self.solver.add(f)
        self.pc.append(f)

    def next_id(self):
        self.ids += 1
        return self.ids

    def add(self, e):
        self.solver.add(e)
        self.pc.append(e)

    def assume(self, cond):
        if isinstance(cond, bool):
            if not cond:
                raise PathEnd("assume False")
            return
        if not isinstance(cond, SymBool):
            raise Unsupported("assume on non-boolean %r" % (cond,))
        self.add(cond.e)
        r = self.solver.check()
        if r == z3.unsat:
            raise PathEnd("infeasible assumption")

    def feasible(self, e):
        self.solver.push()
        self.solver.add(e)
        r = self.solver.check()
        self.solver.pop()
        return r != z3.unsat

    def decide(self, cond, why=""):
        idx = len(self.taken)
        if idx < len(self.prefix):
            choice = self.prefix[idx]
        else:
            t_ok = self.feasible(cond)
            f_ok = self.feasible(z3.Not(cond))
            if t_ok and f_ok:
                choice = True
                self.ex.push_alt(self.taken + [False])
            elif t_ok:
                choice = True
            elif f_ok:
                choice = False
            else:
                raise PathEnd("infeasible path")
        self.taken.append(choice)
        self.add(cond if choice else z3.Not(cond))
        if len(self.taken) > self.ex.max_decisions:
            raise Unsupported("more than %d decisions on one path" % self.ex.max_decisions)
        return choice

    def decide_assume(self, a, b, why=""):
        """binary choice between two (exhaustive) assumptions a / b"""
        idx = len(self.taken)
        if idx < len(self.prefix):
            choice = self.prefix[idx]
        else:
            t_ok = self.feasible(a)
            f_ok = self.feasible(b)
            if t_ok and f_ok:
                choice = True
                self.ex.push_alt(self.taken + [False])
            elif t_ok:
                choice = True
            elif f_ok:
                choice = False
            else:
                raise PathEnd("infeasible path")
        self.taken.append(choice)
        self.add(a if choice else b)
        return choice

    # --- fresh values
    def _name(self, name):
        base = name
        n = 1
        while name in self.fresh_vars:
            n += 1
            name = "%s#%d" % (base, n)
        return name

    def fresh_int(self, name, lo=None, hi=None, bits=None):
        name = self._name(name)
        if bits is not None:
            bvv = z3.BitVec(name, bits)
            e = z3.BV2Int(bvv, is_signed=False)
            v = SymInt(e, (1 << bits) - 1, (bvv, False))
            self.fresh_vars[name] = ("bv", bvv)
            return v
        e = z3.Int(name)
        self.fresh_vars[name] = ("int", e)
        mask = None
        if lo is not None:
            self.add(e >= lo)
        if hi is not None:
            self.add(e <= hi)
        if lo is not None and hi is not None and isinstance(lo, int) and isinstance(hi, int) and lo >= 0:
            mask = (1 << hi.bit_length()) - 1
        return SymInt(e, mask)

    def fresh_real(self, name):
        name = self._name(name)
        e = z3.Real(name)
        self.fresh_vars[name] = ("real", e)
        return SymInt(e)

    def fresh_bool(self, name):
        name = self._name(name)
        e = z3.Bool(name)
        self.fresh_vars[name] = ("bool", e)
        return SymBool(e)

    def fresh_float(self, name):
        name = self._name(name)
        e = z3.FP(name, FP64)
        self.fresh_vars[name] = ("float", e)
        return SymFloat(e)

    def fresh_bytes(self, name, length=None):
        name = self._name(name)
        if length is None:
            ln = z3.Int(name + "!len")
            self.add(ln >= 0)
            length = ln
        elif isinstance(length, SymInt):
            length = length.e
        b = leaf_bytes(name, length)
        self.fresh_vars[name] = ("bytes", b)
        return b

    # --- clock
    def clock_now(self, I):
        if self.clock is None:
            self.clock = self.fresh_real("clock0")
            self.add(self.clock.e >= z3.Real("module_load_time"))
        return self.clock

    def advance_clock(self, lo=None, hi=None, name="dt"):
        d = self.fresh_real(name)
        self.add(d.e >= (0 if lo is None else zi(lo) if not isinstance(lo, (int, float)) else lo))
        if hi is not None:
            self.add(d.e <= (zi(hi) if not isinstance(hi, (int, float)) else hi))
        now = self.clock_now(None)
        self.clock = SymInt(now.e + d.e)
        return d

    def sleep(self, I, delay):
        self.suspend(I, "sleep")
        if self.sleep_hook is not None:
            return self.sleep_hook(I, delay)
        # default assumed contract of asyncio.sleep(d): time advances by >= d (no upper bound)
        self.advance_clock(lo=delay, name="sleep")

    def suspend(self, I, what):
        self.events.append(("suspend", what))
        if self.suspend_hook is not None:
            self.suspend_hook(I, what)

    def event(self, ev):
        self.events.append(ev)

    # --- obligations
    def _check(self, neg, timeout_ms):
        s = z3.Solver()
        s.set("timeout", timeout_ms)
        for a in self.pc:
            s.add(a)
        s.add(neg)
        t0 = time.time()
        r = s.check()
        return r, s, time.time() - t0

    def prove(self, name, cond, side=False):
        if self.ex.I.mode_stack and self.ex.I.mode_stack[-1] == "summary" and not side:
            # inside a callee contract "ensures" is an assumption
            return self.assume(cond)
        if self.known:
            name = "%s[known:%s]" % (name, self.known)
        ob = Obligation(name)
        ob.loc = self.loc
        ob.path = list(self.taken)
        self.obligations.append(ob)
        if isinstance(cond, bool):
            if cond:
                ob.status = "proved"
                ob.solver = "const"
                return
            # need feasibility of the path for a real refutation
            r = self.solver.check()
            if r == z3.unsat:
                ob.status = "proved"
                ob.solver = "z3(path-infeasible)"
                return
            if r == z3.sat:
                ob.status = "refuted"
                ob.model = self.extract_model(self.small_model(self.solver, self.solver.model()))
                ob.solver = "z3"
            else:
                ob.status = "unknown"
                ob.detail = "path feasibility unknown"
            self.note_failure(ob)
            raise PathEnd("obligation failed")
        if not isinstance(cond, SymBool):
            raise Unsupported("obligation %s is not boolean: %r" % (name, cond))
        r, s, dt = self._check(z3.Not(cond.e), self.ex.prove_timeout_ms)
        ob.time = dt
        ob.solver = "z3-%s" % z3.get_version_string()
        if r == z3.unsat:
            ob.status = "proved"
        elif r == z3.sat:
            ob.status = "refuted"
            ob.model = self.extract_model(self.small_model(s, s.model()))
        else:
            # second chance: other back ends on the exported query
            st, detail, which, dt2 = self.ex.fallback(self.pc, z3.Not(cond.e))
            ob.time += dt2
            if st == "unsat":
                ob.status = "proved"
                ob.solver = which
            elif st == "sat":
                ob.status = "refuted"
                ob.solver = which
                ob.detail = "refuted by %s (no model extraction): %s" % (which, detail[:2000])
                ob.model = None
            else:
                ob.status = "unknown"
                ob.detail = "z3: %s; %s" % (s.reason_unknown(), detail[:500])
        if ob.status != "proved":
            self.note_failure(ob)
            if ob.status == "refuted":
                raise PathEnd("obligation refuted")
        # assert-then-assume
        self.add(cond.e)

    def prove_side(self, name, cond):
        """side condition of a modelling assumption (must hold for the encoding to be exact)"""
        self.prove("side:" + name, cond, side=True)

    def note_failure(self, ob):
        ob.fresh = {k: v[0] for k, v in self.fresh_vars.items()}
        ob.known = self.known
        if self.header_mismatch:
            ob.detail = (ob.detail or "") + " [TENTATIVE: " + self.header_mismatch + "]"

    def require(self, cond):
        """harness: assume; summary: prove at call site"""
        I = self.ex.I
        if I.mode_stack and I.mode_stack[-1] == "summary":
            key = self.ex.current_summary_name()
            I.mode_stack.append("pre")
            try:
                self.prove("pre@%s" % key, cond)
            finally:
                I.mode_stack.pop()
        else:
            self.assume(cond)

    def cover(self, name, cond=True):
        ok = False
        if isinstance(cond, bool):
            ok = cond and self.solver.check() != z3.unsat
        else:
            ok = self.feasible(zb(cond))
        self.covers.append((name, ok))

    def small_model(self, solver, m):
        """prefer a counter-model with short byte strings (replayable natively)"""
        lens = [t.length for (k, t) in self.fresh_vars.values() if k == "bytes" and not isinstance(t.length, int)]
        if not lens:
            return m
        for bound in (4, 12, 40, 200, 1100):
            solver.push()
            for ln in lens:
                solver.add(ln <= bound)
            r = solver.check()
            if r == z3.sat:
                m2 = solver.model()
                solver.pop()
                return m2
            solver.pop()
        return m

    def extract_model(self, m):
        out = {}
        for name, (kind, term) in self.fresh_vars.items():
            try:
                if kind == "int":
                    out[name] = m.eval(term, model_completion=True).as_long()
                elif kind == "bv":
                    out[name] = m.eval(term, model_completion=True).as_long()
                elif kind == "bool":
                    out[name] = z3.is_true(m.eval(term, model_completion=True))
                elif kind == "real":
                    v = m.eval(term, model_completion=True)
                    out[name] = float(v.numerator_as_long()) / float(v.denominator_as_long()) if z3.is_rational_value(v) else 0.0
                elif kind == "float":
                    v = m.eval(term, model_completion=True)
                    out[name] = fp_to_py(v)
                elif kind == "pred":
                    out[name] = {"__pred__": [z3.is_true(m.eval(term(j), model_completion=True)) for j in range(64)]}
                elif kind == "bytes":
                    ln = term.length
                    if not isinstance(ln, int):
                        ln = m.eval(ln, model_completion=True).as_long()
                    ln = max(0, min(ln, 4096))
                    bs = []
                    for i in range(ln):
                        x = m.eval(zi(term.get(i)), model_completion=True)
                        bs.append(x.as_long() & 0xFF if z3.is_int_value(x) else 0)
                    out[name] = {"__bytes__": bytes(bs).hex()}
            except Exception as e:  # model extraction must never kill the run
                out[name] = {"__error__": str(e)}
        return out


def fp_to_py(v):
    try:
        if z3.is_fp_value(v) or isinstance(v, z3.FPNumRef):
            if v.isNaN():
                return {"__float__": "nan"}
            if v.isInf():
                return {"__float__": "-inf" if v.isNegative() else "inf"}
            import struct as st
            # exact via IEEE bits
            bvv = z3.simplify(z3.fpToIEEEBV(v))
            return {"__float__": repr(st.unpack(">d", bvv.as_long().to_bytes(8, "big"))[0])}
    except Exception:
        pass
    return {"__float__": "0.0"}


class HarnessResult:
    def __init__(self, name):
        self.name = name
        self.paths = 0
        self.completed_paths = 0
        self.obligations = {}  # name -> dict(status, count, time, solver, ...)
        self.failures = []  # Obligation objects (refuted / unknown)
        self.error = None  # ('unsupported'|'mismatch'|'crash', text)
        self.covers = {}
        self.time = 0.0
        self.solver_time = 0.0
        self.used_summaries = set()
        self.used_loop_contracts = set()
        self.reached = set()
        self.vcs = 0
        self.samples = []
        self.witnesses = []


class Explorer:
    def __init__(self, I, prove_timeout_ms=20000, decide_timeout_ms=3000, max_paths=20000, max_decisions=4000):
        self.I = I
        self.work = []
        self.prove_timeout_ms = prove_timeout_ms
        self.decide_timeout_ms = decide_timeout_ms
        self.max_paths = max_paths
        self.max_decisions = max_decisions
        self.max_explore_seconds = int(os.environ.get("PYVC_EXPLORE_SECONDS", "600"))
        self.summary_stack = []
        self.use_fallback = True
        self.collect_witnesses = 0

    def push_alt(self, prefix):
        self.work.append(prefix)

    def current_summary_name(self):
        st = getattr(self.I, "summary_names", None)
        return st[-1] if st else "?"

    def fallback(self, pc, neg):
        """try cvc5 and the system z3 on the SMT-LIB export of the query"""
        if not self.use_fallback:
            return "unknown", "", "", 0.0
        s = z3.Solver()
        for a in pc:
            s.add(a)
        s.add(neg)
        smt = s.to_smt2()
        t0 = time.time()
        detail = ""
        for which, cmd in (("cvc5-1.0.3", ["/usr/bin/cvc5", "--lang=smt2", "--tlimit=%d" % self.prove_timeout_ms]),
                           ("z3-4.8.12", ["/usr/bin/z3", "-smt2", "-in", "-T:%d" % max(1, self.prove_timeout_ms // 1000)])):
            try:
                txt = smt
                if which.startswith("cvc5"):
                    txt = "(set-logic ALL)\n" + smt
                p = subprocess.run(cmd, input=txt, capture_output=True, text=True, timeout=self.prove_timeout_ms / 1000 + 5)
                out = (p.stdout or "").strip().splitlines()
                first = out[0].strip() if out else ""
                detail += "%s: %s; " % (which, first or (p.stderr or "")[:200])
                if first == "unsat":
                    return "unsat", detail, which, time.time() - t0
                if first == "sat":
                    return "sat", detail, which, time.time() - t0
            except Exception as e:
                detail += "%s: %s; " % (which, e)
        return "unknown", detail, "", time.time() - t0

    def run_harness(self, hname, hfunc, params, summaries, loop_contracts, case=MISSING):
        I = self.I
        res = HarnessResult(hname)
        t0 = time.time()
        self.work = [[]]
        I.summaries = summaries
        I.loop_contracts = loop_contracts
        seen_ob = res.obligations
        t_explore0 = time.time()
        while self.work:
            prefix = self.work.pop()
            res.paths += 1
            if time.time() - t_explore0 > self.max_explore_seconds:
                # never hang: a harness whose exploration does not finish within its wall-clock budget is UNDECIDED (exit 2)
                res.error = ("unsupported", "exploration budget of %d s exceeded after %d paths (path explosion: needs a contract / guarded merge)" % (
                    self.max_explore_seconds, res.paths))
                break
            if res.paths > self.max_paths:
                res.error = ("unsupported", "more than %d paths" % self.max_paths)
                break
            ctx = PathCtx(self, prefix)
            I.ctx = ctx
            I.call_depth = 0
            I.mode_stack = []
            I.pure = 0
            I.used_summaries = set()
            I.used_loop_contracts = set()
            completed = False
            try:
                args = self.make_args(ctx, hfunc, params if case is MISSING else params[1:])
                if case is not MISSING:
                    args = [case] + args
                try:
                    I.call_function(hfunc, args, {}, run_async=True)
                    completed = True
                except PyRaise as e:
                    # an exception escaping the harness: exception-freedom obligation fails
                    ob = Obligation("no-exception" + ("[known:%s]" % ctx.known if ctx.known else ""))
                    ob.loc = ctx.loc
                    ob.path = list(ctx.taken)
                    r = ctx.solver.check()
                    if r == z3.unsat:
                        ob.status = "proved"
                    else:
                        ob.status = "refuted" if r == z3.sat else "unknown"
                        ob.detail = "uncaught %s at %s" % (describe_exc(e.exc), ctx.loc)
                        if r == z3.sat:
                            ob.model = ctx.extract_model(ctx.small_model(ctx.solver, ctx.solver.model()))
                        ctx.note_failure(ob)
                    ctx.obligations.append(ob)
            except PathEnd:
                pass
            except ContractMismatch as e:
                res.error = ("mismatch", str(e))
            except Unsupported as e:
                res.error = ("unsupported", "%s (at %s)" % (e, ctx.loc))
                if os.environ.get("PYVC_TRACE"):
                    res.error = ("unsupported", res.error[1] + "\n" + traceback.format_exc())
            except RecursionError as e:
                res.error = ("unsupported", "python recursion limit (at %s)" % (ctx.loc,))
            except Exception as e:
                res.error = ("crash", "%s: %s\n%s" % (type(e).__name__, e, traceback.format_exc()))
            if completed:
                res.completed_paths += 1
                if self.collect_witnesses and len(res.witnesses) < self.collect_witnesses:
                    # a concrete input that follows exactly this path: replayed natively by the self-test
                    try:
                        if ctx.solver.check() == z3.sat:
                            m = ctx.small_model(ctx.solver, ctx.solver.model())
                            res.witnesses.append({"model": ctx.extract_model(m), "guarded": bool(getattr(I, "guarded", False)),
                                                  "ensures": [o.name for o in ctx.obligations
                                                              if not o.name.startswith(("inv-init:", "inv-step:", "pre@", "side:")) and o.name != "no-exception"]})
                    except Exception:
                        pass
                # implicit obligation on every completed path: nothing escaped
                ob = Obligation("no-exception")
                ob.status = "proved"
                ob.solver = "path-enumeration"
                ctx.obligations.append(ob)
            res.used_summaries |= I.used_summaries
            res.used_loop_contracts |= I.used_loop_contracts
            for name, ok in ctx.covers:
                res.covers[name] = res.covers.get(name, False) or ok
            for ob in ctx.obligations:
                res.vcs += 1
                res.solver_time += ob.time
                d = seen_ob.setdefault(ob.name, {"status": "proved", "vcs": 0, "time": 0.0, "solvers": set()})
                d["vcs"] += 1
                d["time"] += ob.time
                if ob.solver:
                    d["solvers"].add(ob.solver)
                if ob.status != "proved":
                    if d["status"] == "proved" or (d["status"] == "unknown" and ob.status == "refuted"):
                        d["status"] = ob.status
                    res.failures.append(ob)
                if len(res.samples) < 3 and ob.status == "proved" and ob.solver.startswith("z3-"):
                    res.samples.append({"obligation": ob.name, "path_decisions": len(ob.path or []),
                                        "path_condition_conjuncts": len(ctx.pc), "verdict": "unsat (proved)",
                                        "seconds": round(ob.time, 4)})
            if res.error:
                break
        res.reached = set(I.reached_functions)
        res.time = time.time() - t0
        return res

    def make_args(self, ctx, hfunc, params):
        args = []
        for (pname, ann) in params:
            if ann == "int":
                args.append(ctx.fresh_int(pname))
            elif ann == "bool":
                args.append(ctx.fresh_bool(pname))
            elif ann == "bytes":
                args.append(ctx.fresh_bytes(pname))
            elif ann == "float":
                args.append(ctx.fresh_float(pname))
            elif ann.startswith("u") and ann[1:].isdigit():
                args.append(ctx.fresh_int(pname, bits=int(ann[1:])))
            else:
                raise Unsupported("harness parameter %s: unsupported annotation %r" % (pname, ann))
        return args


# ============================================================================ intrinsics
def make_api_module(I, registry):
    """the `verif_api` module as seen by interpreted sidecar code"""
    m = Module("verif_api")
    m.is_stub = True

    def nf(name, wants_frame=False):
        def deco(f):
            n = NativeFn(name, f)
            n.wants_frame = wants_frame
            m.ns[name] = n
            return f
        return deco

    @nf("requires")
    def _requires(I_, args, kw):
        I_.ctx.require(_b(I_, args[0]))

    @nf("assume")
    def _assume(I_, args, kw):
        I_.ctx.assume(_b(I_, args[0]))

    @nf("ensures")
    def _ensures(I_, args, kw):
        name, cond = args[0], args[1]
        I_.ctx.prove(name, _b(I_, cond))

    @nf("cover")
    def _cover(I_, args, kw):
        I_.ctx.cover(args[0], _b(I_, args[1]) if len(args) > 1 else True)

    @nf("fresh_int")
    def _fresh_int(I_, args, kw):
        lo = args[1] if len(args) > 1 else kw.get("lo")
        hi = args[2] if len(args) > 2 else kw.get("hi")
        v = I_.ctx.fresh_int(args[0], None, None, kw.get("bits"))
        if lo is not None:
            I_.ctx.assume(cmp_op(">=", v, lo))
        if hi is not None:
            I_.ctx.assume(cmp_op("<=", v, hi))
        if isinstance(lo, int) and isinstance(hi, int) and lo >= 0 and isinstance(v, SymInt) and v.bits is None:
            v = SymInt(v.e, (1 << hi.bit_length()) - 1, v.bv)
        return v

    @nf("fresh_bool")
    def _fresh_bool(I_, args, kw):
        return I_.ctx.fresh_bool(args[0])

    @nf("fresh_bytes")
    def _fresh_bytes(I_, args, kw):
        ln = args[1] if len(args) > 1 else kw.get("length")
        return I_.ctx.fresh_bytes(args[0], ln)

    @nf("fresh_float")
    def _fresh_float(I_, args, kw):
        return I_.ctx.fresh_float(args[0])

    @nf("fresh_time")
    def _fresh_time(I_, args, kw):
        return I_.ctx.fresh_real(args[0])

    @nf("new")
    def _new(I_, args, kw):
        inst = Instance(args[0])
        for k, v in kw.items():
            inst.attrs[k] = v
        return inst

    @nf("implies")
    def _implies(I_, args, kw):
        return b_implies(_b(I_, args[0]), _b(I_, args[1]))

    @nf("both")
    def _both(I_, args, kw):
        return b_and(*[_b(I_, a) for a in args])

    @nf("either")
    def _either(I_, args, kw):
        return b_or(*[_b(I_, a) for a in args])

    @nf("ite")
    def _ite(I_, args, kw):
        return ite(_b(I_, args[0]), args[1], args[2])

    @nf("forall_int")
    def _forall(I_, args, kw):
        """forall_int(lo, hi, lambda i: P(i))  -- lo <= i < hi"""
        lo, hi, f = args
        q = z3.Int("_fa%d" % I_.ctx.next_id())
        I_.pure += 1
        try:
            body = I_.call(f, [SymInt(q)], {})
        finally:
            I_.pure -= 1
        return mk_bool(z3.ForAll([q], z3.Implies(z3.And(q >= zi(lo), q < zi(hi)), zb(body))))

    @nf("clock_now")
    def _clock_now(I_, args, kw):
        return I_.ctx.clock_now(I_)

    @nf("set_clock")
    def _set_clock(I_, args, kw):
        t = args[0]
        I_.ctx.clock = t if isinstance(t, SymInt) else SymInt(z3.RealVal(repr(float(t))))

    @nf("advance_clock")
    def _advance(I_, args, kw):
        return I_.ctx.advance_clock(args[0] if args else None, args[1] if len(args) > 1 else kw.get("hi"))

    @nf("events")
    def _events(I_, args, kw):
        return list(I_.ctx.events)

    @nf("suspension_count")
    def _susp(I_, args, kw):
        return len([e for e in I_.ctx.events if e[0] == "suspend"])

    @nf("suspension_point")
    def _susp_point(I_, args, kw):
        """an await of something that may suspend the task (cancellation may be delivered here)"""
        I_.ctx.suspend(I_, args[0] if args else "await")

    @nf("set_sleep_model")
    def _set_sleep(I_, args, kw):
        f = args[0]
        I_.ctx.sleep_hook = (lambda I2, d: I2.call(f, [d], {})) if f is not None else None

    @nf("set_suspend_hook")
    def _set_susp(I_, args, kw):
        f = args[0]

        def hook(I2, what):
            r = I2.call(f, [what], {})
            if type(r).__name__ == "CoroutineObj":
                # an `async def` hook: another task runs to its own next suspension... here: to completion, inline
                I2.run_coroutine(r)
        I_.ctx.suspend_hook = hook if f is not None else None

    @nf("cancel_here")
    def _cancel(I_, args, kw):
        raise PyRaise(Instance_exc(I_, I_.stubs["asyncio"].ns["CancelledError"]))

    @nf("real_body")
    def _real_body(I_, args, kw):
        """real_body(func_or_bound_method, *args): run the repository body even when a summary is active"""
        f = args[0]
        if isinstance(f, BoundMethod):
            return I_.call_function(f.func, [f.self_] + list(args[1:]), kw, force_body=True, run_async=True)
        return I_.call_function(f, list(args[1:]), kw, force_body=True, run_async=True)

    @nf("known_finding")
    def _known(I_, args, kw):
        """known_finding(id, cond): on paths where cond holds, failing obligations are
        attributed to the recorded finding `id` (listed in known_findings.json)"""
        c = _b(I_, args[1])
        if I_.decide(c, "known-finding"):
            I_.ctx.known = args[0]
            return True
        return False

    @nf("sym_list")
    def _sym_list(I_, args, kw):
        """sym_list(n, lambda j: item, key=(...)): the list [item(0), ..., item(n-1)] for symbolic n"""
        n, f = args[0], args[1]
        if isinstance(n, int):
            return [I_.call(f, [j], {}) for j in range(n)]
        return I_.bm.SymList(n, lambda j: I_.call(f, [j], {}), kw.get("key"))

    @nf("fresh_predicate")
    def _fresh_pred(I_, args, kw):
        """an arbitrary (uninterpreted) predicate over the integers: p(j) -> bool"""
        name = I_.ctx._name(args[0])
        fn = z3.Function(name, z3.IntSort(), z3.BoolSort())
        I_.ctx.fresh_vars[name] = ("pred", fn)
        return NativeFn("pred:" + name, lambda I2, a, k: mk_bool(fn(zi(a[0]))))

    @nf("exact_rational_floats")
    def _real_floats(I_, args, kw):
        I_.real_floats = bool(args[0]) if args else True

    @nf("enable_guarded_collections")
    def _guarded(I_, args, kw):
        I_.guarded = True

    @nf("exclude_case_unless")
    def _exclude(I_, args, kw):
        """precondition on the concrete *case* (table pair): when it does not hold the case is outside the
        harness's reach (reported as excluded, not as a vacuous harness)"""
        if not args[0]:
            I_.case_excluded = True
            raise PathEnd("case excluded")

    @nf("members")
    def _members(I_, args, kw):
        """members(xs) -> [(guard, element)]: the elements of a (possibly guarded) list with their presence conditions"""
        xs = args[0]
        if isinstance(xs, I_.bm.GList):
            return [(g, v) for g, v in xs.items]
        return [(True, v) for v in I_.iterate_concrete(xs)]

    @nf("pick")
    def _pick(I_, args, kw):
        """pick(values, idx): values[idx] as ONE merged symbolic value (idx within range on this path)"""
        vals, idx = args
        if isinstance(idx, int):
            return vals[idx]
        from .values import choice_of
        return choice_of(zi(idx), list(vals))

    @nf("is_symbolic")
    def _is_sym(I_, args, kw):
        return isinstance(args[0], Sym)

    @nf("byte_at")
    def _byte_at(I_, args, kw):
        return bytes_index(args[0], args[1])

    @nf("concrete_cases")
    def _cases(I_, args, kw):
        """concrete_cases(x, lo, hi) -> python int: case split of symbolic x over lo..hi"""
        x, lo, hi = args
        if isinstance(x, int):
            return x
        for v in range(lo, hi + 1):
            if I_.ctx.decide(zi(x) == v, "case"):
                return v
        raise PathEnd("case split exhausted")

    # registration decorators: executed when the sidecar module is loaded
    def deco_factory(kind):
        def outer(I_, args, kw):
            def inner(I2, a2, k2):
                f = a2[0]
                registry.register(kind, f, args, kw)
                return f
            return NativeFn("@" + kind, inner)
        return outer

    for kind in ("harness", "summary", "loop_contract"):
        m.ns[kind] = NativeFn(kind, deco_factory(kind))
    m.ns["SYMBOLIC"] = True
    return m


def Instance_exc(I, cls, *args):
    inst = Instance(cls)
    inst.attrs["args"] = tuple(args)
    return inst


def _b(I, v):
    if isinstance(v, (bool, SymBool)):
        return v
    if isinstance(v, SymInt):
        return mk_bool(v.e != 0)
    return I.truth(v)


class Registry:
    def __init__(self):
        self.harnesses = {}  # name -> dict
        self.summaries = {}  # name -> dict(target, func)
        self.loop_contracts = {}  # name -> dict(target, ordinal, header, havoc, inv)
        self.by_module = {}  # (kind, module name, contract name) -> dict: sidecars import each other, names may repeat

    def lookup(self, kind, name, module_name):
        """a contract named by a harness: the one defined in the harness function's own sidecar wins over a
        same-named one of another sidecar that happens to be loaded too"""
        d = self.by_module.get((kind, module_name, name))
        if d is not None:
            return d
        return (self.summaries if kind == "summary" else self.loop_contracts)[name]

    def register(self, kind, f, args, kw):
        if kind == "harness":
            name = kw.get("name", f.name)
            self.harnesses[name] = dict(name=name, func=f, prop=kw.get("prop"), target=kw.get("target"),
                                        uses=list(kw.get("uses", [])), loops=list(kw.get("loops", [])),
                                        proves=kw.get("proves"), tier=kw.get("tier", "quick"), cases=kw.get("cases"), cases_quick=kw.get("cases_quick"), bounded=kw.get("bounded", False),
                                        timeout=kw.get("timeout"), note=kw.get("note", ""))
        elif kind == "summary":
            name = kw.get("name", f.name)
            self.summaries[name] = dict(name=name, func=f, target=args[0] if args else kw["target"],
                                        assumed=kw.get("assumed"), note=kw.get("note", ""))
            self.by_module[("summary", f.module.name, name)] = self.summaries[name]
        elif kind == "loop_contract":
            name = kw.get("name", f.name if isinstance(f, FuncObj) else f.name)
            # f is a class with havoc / inv static methods
            self.loop_contracts[name] = dict(name=name, cls=f, target=args[0], ordinal=args[1],
                                             header=kw.get("header"))
            mod = getattr(f, "module", None)
            self.by_module[("loop_contract", getattr(mod, "name", None), name)] = self.loop_contracts[name]


def load_sidecars(I, registry, files):
    api = make_api_module(I, registry)
    I.stubs["verif_api"] = api
    mods = []
    for f in files:
        name = "contracts." + os.path.splitext(os.path.basename(f))[0]
        mods.append(I.import_module(name))
    return mods


def func_source_hash(I, key):
    """sha1 of the source text of repo function `module:Qual.name` as read this run"""
    modname, qual = key.split(":")
    mod = I.modules.get(modname)
    if mod is None:
        return None
    obj = resolve_qual(I, mod, qual)
    if obj is None:
        return None
    src = I.source_cache.get(mod.file, "")
    seg = ast.get_source_segment(src, obj.node) or ""
    return hashlib.sha1(seg.encode()).hexdigest()


def resolve_qual(I, mod, qual):
    cur = mod
    for part in qual.split("."):
        if isinstance(cur, Module):
            cur = cur.ns.get(part)
        elif isinstance(cur, ClassObj):
            cur = cur.ns.get(part, MISSING)
            if cur is MISSING:
                return None
        else:
            return None
        if cur is None:
            return None
    if isinstance(cur, PropertyObj):
        cur = cur.fget
    if isinstance(cur, StaticMethodObj):
        cur = cur.func
    return cur if isinstance(cur, FuncObj) else None
