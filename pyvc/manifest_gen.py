"""regenerate MANIFEST.json from the property registry (python3-vt -m pyvc.manifest_gen)"""
import json
import os
from . import props

VERIF = os.path.dirname(os.path.dirname(os.path.abspath(__file__)))
ALL = [json.loads(l) for l in open(os.path.join(VERIF, "properties.jsonl"))]

NOT_APPLICABLE = {}


def main():
    checks = []
    na = []
    for p in ALL:
        pid = p["id"]
        spec = props.PROPS.get(pid)
        if spec is None:
            na.append({"property_id": pid, "reason": NOT_APPLICABLE.get(pid, "check not built yet (work in progress); never counted as proved")})
            continue
        checks.append({
            "property_id": pid,
            "quick_cmd": "./check %s --tier quick" % pid,
            "thorough_cmd": "./check %s --tier thorough" % pid,
            "evidence_file": "evidence/%s.json" % pid,
            "replay_cmd_template": "./check %s --replay {path}" % pid,
            "engine": "pyvc",
            "level_claimed": {"category": spec.get("level", "proof"),
                              "text": spec.get("explanation", ""),
                              "design_ref": "DESIGN.md section 3 %s" % pid},
            "level_note": "; ".join(spec.get("assumptions", []) + spec.get("trusted_base", [])) or "see evidence assumptions",
            "technique": spec.get("technique", "contract-based deductive verification: sidecar contracts on the real functions, VCs generated from the AST of the working tree by symbolic execution (pyvc), discharged by z3/cvc5"),
        })
    m = {
        "version": 1,
        "setup_cmd": "true",
        "hooks": {"guard": "GECKOLIB_VERIF", "enable": "no hooks: contracts live in sidecar files under /verif/contracts, /repo is only read (the guard variable is unused)",
                  "baseline_off_cmd": "cd /repo && /venv/bin/python -m pytest -ra -q -p no:cacheprovider --timeout=900 --continue-on-collection-errors",
                  "source_commits": [], "add_only": True},
        "engines": [{"name": "pyvc", "path": "pyvc/", "serves_properties": sorted(props.PROPS),
                     "kind_free_text": "AST->SMT verification-condition generator for a Python subset (path-wise symbolic execution with contract cuts: callee summaries, loop invariants), z3 5.1 primary, cvc5 / z3 4.8 fall-back, native counter-example replay under /venv/bin/python"}],
        "checks": checks,
        "notes": "exit codes: 0 held, 1 violation (VIOLATION line + replay), 2 undecided, 3 checker fault. See DESIGN.md.",
        "not_applicable": na,
    }
    json.dump(m, open(os.path.join(VERIF, "MANIFEST.json"), "w"), indent=1)
    print("manifest: %d checks, %d not applicable" % (len(checks), len(na)))


if __name__ == "__main__":
    main()
