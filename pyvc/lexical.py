"""Lexical (AST dominance) obligations.

Where a property clause depends on a library primitive (a lock, the absence of a
suspension point) the deductive part proves the sequential contract and this module
discharges the *lexical* obligation "the access is dominated by the acquisition",
read from the current working tree on every run.  Back end: ast-dominance.
"""
import ast
import hashlib
import os


def parse(repo, rel):
    path = os.path.join(repo, "src", "geckolib", rel)
    src = open(path, encoding="utf-8").read()
    return ast.parse(src), src, path


def find_func(tree, qual):
    cur = tree
    for part in qual.split("."):
        nxt = None
        for n in cur.body:
            if isinstance(n, (ast.FunctionDef, ast.AsyncFunctionDef, ast.ClassDef)) and n.name == part:
                nxt = n
                break
        if nxt is None:
            return None
        cur = nxt
    return cur


def seg_hash(src, node):
    return hashlib.sha1((ast.get_source_segment(src, node) or "").encode()).hexdigest()


def is_self_attr(n, names):
    return isinstance(n, ast.Attribute) and isinstance(n.value, ast.Name) and n.value.id == "self" and n.attr in names


def nodes_with_context(func):
    """yield (node, list of enclosing With/AsyncWith nodes) for every node in func"""
    out = []

    def rec(n, withs):
        out.append((n, withs))
        if isinstance(n, (ast.With, ast.AsyncWith)):
            for it in n.items:
                rec(it.context_expr, withs)
                if it.optional_vars is not None:
                    rec(it.optional_vars, withs)
            for st in n.body:
                rec(st, withs + [n])
            return
        if isinstance(n, (ast.FunctionDef, ast.AsyncFunctionDef, ast.Lambda)) and n is not func:
            # nested function bodies execute later: not dominated by the enclosing with
            for ch in ast.iter_child_nodes(n):
                rec(ch, [])
            return
        for ch in ast.iter_child_nodes(n):
            rec(ch, withs)

    rec(func, [])
    return out


def with_holds(w, lock_src):
    return any(ast.unparse(it.context_expr) == lock_src for it in w.items)


def accesses_under_lock(func, attr_names, lock_src):
    """every Load/Store of self.<attr> in func is inside `with <lock_src>`; returns list of offending linenos"""
    bad = []
    for n, withs in nodes_with_context(func):
        if is_self_attr(n, attr_names):
            if not any(with_holds(w, lock_src) for w in withs):
                bad.append((n.lineno, ast.unparse(n)))
    return bad


def ob(name, ok, detail="", witness=None):
    return {"name": name, "status": "proved" if ok else "refuted", "detail": detail, "witness": witness,
            "confirmed": False}


def c16_lexical(repo, tier):
    tree, src, path = parse(repo, "driver/udp_socket.py")
    f = find_func(tree, "GeckoUdpSocket.get_and_increment_sequence_counter")
    obs = []
    funcs = {}
    if f is None:
        obs.append({"name": "lock/get_and_increment_sequence_counter-exists", "status": "unknown",
                    "detail": "function not found (renamed?)"})
    else:
        funcs["geckolib.driver.udp_socket:GeckoUdpSocket.get_and_increment_sequence_counter"] = seg_hash(src, f)
        bad = accesses_under_lock(f, {"_sequence_counter_protocol", "_sequence_counter_command"}, "self._lock")
        obs.append(ob("lexical-lock/GeckoUdpSocket.get_and_increment_sequence_counter",
                      not bad,
                      "every read and write of the two counters must be inside `with self._lock` "
                      "(a value re-read after the lock is released can be a number handed to another thread)",
                      {"unlocked_accesses": bad, "file": path}))
        # no other method of the class writes the counters
        cls = find_func(tree, "GeckoUdpSocket")
        writers = []
        for m in cls.body:
            if isinstance(m, (ast.FunctionDef, ast.AsyncFunctionDef)) and m.name not in ("__init__", "get_and_increment_sequence_counter"):
                for n in ast.walk(m):
                    if is_self_attr(n, {"_sequence_counter_protocol", "_sequence_counter_command"}) and isinstance(n.ctx, (ast.Store, ast.Del)):
                        writers.append((m.name, n.lineno))
        obs.append(ob("frame/only-the-counter-method-writes-the-counters(GeckoUdpSocket)", not writers, "", {"writers": writers}))
    tree2, src2, path2 = parse(repo, "driver/async_udp_protocol.py")
    cls2 = find_func(tree2, "GeckoAsyncUdpProtocol")
    writers = []
    if cls2 is not None:
        for m in cls2.body:
            if isinstance(m, (ast.FunctionDef, ast.AsyncFunctionDef)) and m.name not in ("__init__", "get_and_increment_sequence_counter"):
                for n in ast.walk(m):
                    if is_self_attr(n, {"_sequence_counter_protocol", "_sequence_counter_command"}) and isinstance(n.ctx, (ast.Store, ast.Del)):
                        writers.append((m.name, n.lineno))
        g = find_func(tree2, "GeckoAsyncUdpProtocol.get_and_increment_sequence_counter")
        if g is not None:
            awaits = [n.lineno for n in ast.walk(g) if isinstance(n, ast.Await)]
            obs.append(ob("lexical-atomic/GeckoAsyncUdpProtocol.get_and_increment_sequence_counter-has-no-suspension-point",
                          not awaits and not isinstance(g, ast.AsyncFunctionDef), "", {"awaits": awaits}))
    obs.append(ob("frame/only-the-counter-method-writes-the-counters(GeckoAsyncUdpProtocol)", not writers, "", {"writers": writers}))
    return {"name": "lexical", "backend": "ast-dominance", "obligations": obs, "functions": funcs,
            "samples": [{"obligation": o["name"], "verdict": o["status"]} for o in obs[:2]]}


def no_suspension(func):
    """await expressions in func (lexically)"""
    return [(n.lineno, ast.unparse(n)[:60]) for n in ast.walk(func) if isinstance(n, (ast.Await, ast.AsyncFor, ast.AsyncWith))]


def c05_lexical(repo, tier):
    obs = []
    funcs = {}
    tree, src, path = parse(repo, "driver/protocol/statusblock.py")
    f = find_func(tree, "GeckoAsyncPartialStatusBlockProtocolHandler.async_handle")
    if f is None:
        obs.append({"name": "lexical-atomic/async_handle-exists", "status": "unknown", "detail": "function not found"})
    else:
        funcs["geckolib.driver.protocol.statusblock:GeckoAsyncPartialStatusBlockProtocolHandler.async_handle"] = seg_hash(src, f)
        aw = no_suspension(f)
        obs.append(ob("lexical-atomic/async_handle-decodes-without-suspension-point", not aw,
                      "an await between the ack and the decode lets another message overwrite the buffer", {"awaits": aw}))
    tree2, src2, path2 = parse(repo, "async_spa.py")
    g = find_func(tree2, "GeckoAsyncSpa._async_on_partial_status_update")
    if g is None:
        obs.append({"name": "lexical-atomic/_async_on_partial_status_update-exists", "status": "unknown", "detail": "function not found"})
    else:
        funcs["geckolib.async_spa:GeckoAsyncSpa._async_on_partial_status_update"] = seg_hash(src2, g)
        aw = no_suspension(g)
        obs.append(ob("lexical-atomic/records-applied-without-suspension-point", not aw, "", {"awaits": aw}))
    tree3, src3, _ = parse(repo, "driver/udp_protocol_handler.py")
    c = find_func(tree3, "GeckoUdpProtocolHandler.consume")
    if c is not None:
        # between pop() and async_handled() only the two handler awaits may occur
        body_src = ast.unparse(c)
        ok = "await self.async_handle(data, sender)" in body_src and "await self.async_handled(sender)" in body_src
        obs.append(ob("lexical/consume-hands-each-datagram-to-handle-then-handled", ok, "", None))
    return {"name": "lexical", "backend": "ast-dominance", "obligations": obs, "functions": funcs,
            "samples": [{"obligation": o["name"], "verdict": o["status"]} for o in obs[:2]]}


def calls_named(func, method):
    out = []
    for n, withs in nodes_with_context(func):
        if isinstance(n, ast.Call) and isinstance(n.func, ast.Attribute) and n.func.attr == method:
            out.append((n, withs))
    return out


def c06_lexical(repo, tier):
    """every transmission of a *request* in the async stack is dominated by `async with <protocol>.Lock`"""
    obs = []
    funcs = {}
    allowed_unlocked = {
        ("driver/protocol/statusblock.py", "GeckoAsyncPartialStatusBlockProtocolHandler.async_handle"): "STATQ acknowledgement (not a request)",
        ("async_locator.py", "GeckoAsyncLocator._broadcast_loop"): "discovery broadcast on the locator's own endpoint",
    }
    files = ["async_spa.py", "driver/async_spastruct.py", "driver/async_udp_protocol.py", "automation/async_facade.py",
             "async_spa_manager.py", "async_locator.py", "driver/protocol/statusblock.py", "automation/watercare.py", "automation/reminders.py"]
    def lock_held(w):
        return isinstance(w, ast.AsyncWith) and any(ast.unparse(it.context_expr).endswith(".Lock") for it in w.items)

    for rel in files:
        tree, src, path = parse(repo, rel)
        for cls in [n for n in tree.body if isinstance(n, ast.ClassDef)]:
            methods = {m.name: m for m in cls.body if isinstance(m, (ast.AsyncFunctionDef, ast.FunctionDef))}

            def always_called_under_lock(name, seen):
                """every call `self.<name>(...)` inside this class is dominated by the lock (directly or through a
                private helper that itself is only called under the lock)"""
                if name in seen:
                    return False
                seen = seen | {name}
                sites = []
                for m in methods.values():
                    for n, withs in nodes_with_context(m):
                        if isinstance(n, ast.Call) and isinstance(n.func, ast.Attribute) and n.func.attr == name \
                                and isinstance(n.func.value, ast.Name) and n.func.value.id == "self":
                            sites.append((m, withs))
                if not sites or not name.startswith("_"):
                    return False
                return all(any(lock_held(w) for w in withs) or always_called_under_lock(m.name, seen) for m, withs in sites)

            for f in methods.values():
                qual = "%s.%s" % (cls.name, f.name)
                for call, withs in calls_named(f, "queue_send"):
                    if not isinstance(f, ast.AsyncFunctionDef) and not always_called_under_lock(f.name, set()):
                        continue        # synchronous engine (threaded stack): not this property
                    locked = any(lock_held(w) for w in withs) or always_called_under_lock(f.name, set())
                    if (rel, qual) in allowed_unlocked:
                        obs.append(ob("lexical-lock/%s:%s:queue_send-is-not-a-request(%s)" % (rel, qual, allowed_unlocked[(rel, qual)]), True))
                        continue
                    funcs["geckolib.%s:%s" % (rel[:-3].replace("/", "."), qual)] = seg_hash(src, f)
                    obs.append(ob("lexical-lock/%s:%s:queue_send-inside-async-with-Lock" % (rel, cls.name), locked,
                                  "a request transmitted outside the protocol lock can be outstanding together with another one",
                                  {"line": call.lineno, "file": path, "function": qual}))
    if not [o for o in obs if "inside-async-with-Lock" in o["name"]]:
        obs.append({"name": "lexical-lock/at-least-one-request-site-found", "status": "unknown", "detail": "no queue_send call found (renamed?)"})
    return {"name": "lexical", "backend": "ast-dominance", "obligations": obs, "functions": funcs,
            "samples": [{"obligation": o["name"], "verdict": o["status"]} for o in obs[:2]]}


def c07_lexical(repo, tier):
    """only the unhandled consumer marks the queue; pop() is called only by the three consumers"""
    obs = []
    marks = []
    popsites = []
    import glob as _g
    root = os.path.join(repo, "src", "geckolib")
    for path in sorted(_g.glob(os.path.join(root, "**", "*.py"), recursive=True)):
        if os.sep + "packs" + os.sep in path:
            continue
        tree = ast.parse(open(path, encoding="utf-8").read())
        for cls in [n for n in ast.walk(tree) if isinstance(n, ast.ClassDef)]:
            for f in [m for m in cls.body if isinstance(m, (ast.FunctionDef, ast.AsyncFunctionDef))]:
                for n in ast.walk(f):
                    if isinstance(n, ast.Call) and isinstance(n.func, ast.Attribute) and ast.unparse(n.func.value).endswith("queue"):
                        site = "%s:%s.%s" % (os.path.relpath(path, root), cls.name, f.name)
                        if n.func.attr == "mark":
                            marks.append(site)
                        if n.func.attr == "pop":
                            popsites.append(site)
    obs.append(ob("lexical/only-the-unhandled-consumer-marks", sorted(set(marks)) == ["driver/protocol/unhandled.py:GeckoUnhandledProtocolHandler.consume"], "", {"mark_sites": marks}))
    # removal from the receive queue happens only inside the consumer classes (helper methods of theirs are fine)
    classes = sorted(set(p.rsplit(".", 1)[0] for p in popsites))
    want = sorted(["driver/protocol/unhandled.py:GeckoUnhandledProtocolHandler", "driver/udp_protocol_handler.py:GeckoUdpProtocolHandler"])
    obs.append(ob("lexical/queue-pop-only-in-the-consumer-classes", classes == want, "", {"pop_sites": popsites}))
    return {"name": "lexical", "backend": "ast-dominance", "obligations": obs, "functions": {},
            "samples": [{"obligation": o["name"], "verdict": o["status"]} for o in obs[:2]]}


def c20_lexical(repo, tier):
    """every access to the shared handler lists / busy counter that the property relies on is under `with self._lock`"""
    tree, src, path = parse(repo, "driver/udp_socket.py")
    obs = []
    funcs = {}
    shared = {"_send_handlers", "_receive_handlers", "_busy_count"}
    for fn in ("add_receive_handler", "remove_receive_handler", "queue_send", "_process_send_requests", "dispatch_recevied_data", "_cleanup_handlers"):
        f = find_func(tree, "GeckoUdpSocket." + fn)
        if f is None:
            obs.append({"name": "lexical-lock/GeckoUdpSocket.%s-exists" % fn, "status": "unknown", "detail": "function not found"})
            continue
        funcs["geckolib.driver.udp_socket:GeckoUdpSocket." + fn] = seg_hash(src, f)
        bad = accesses_under_lock(f, shared, "self._lock")
        # log arguments are dropped by the extraction and never executed for their value
        bad = [b for b in bad if not _inside_log_call(f, b[0])]
        obs.append(ob("lexical-lock/GeckoUdpSocket.%s:shared-lists-under-the-lock" % fn, not bad, "", {"unlocked": bad}))
    # a shared list is only ever REPLACED by a read-modify-write inside one locked section: the new value is computed from the
    # live attribute in the same `with self._lock` (a rebuild from a snapshot taken in an earlier section silently drops
    # whatever another thread registered in between)
    cls = find_func(tree, "GeckoUdpSocket")
    for f in ([n for n in cls.body if isinstance(n, ast.FunctionDef)] if cls is not None else []):
        if f.name == "__init__":
            continue
        for n, withs in nodes_with_context(f):
            if isinstance(n, ast.Assign) and len(n.targets) == 1 and isinstance(n.targets[0], ast.Attribute) \
                    and isinstance(n.targets[0].value, ast.Name) and n.targets[0].value.id == "self" and n.targets[0].attr in ("_send_handlers", "_receive_handlers"):
                attr = n.targets[0].attr
                reads_live = any(isinstance(x, ast.Attribute) and x.attr == attr and isinstance(x.value, ast.Name) and x.value.id == "self"
                                 for x in ast.walk(n.value))
                locked = any(with_holds(w, "self._lock") for w in withs)
                obs.append(ob("lexical-lock/GeckoUdpSocket.%s:%s-replaced-by-read-modify-write-in-one-locked-section" % (f.name, attr),
                              reads_live and locked, "", {"line": n.lineno, "reads_live_list": reads_live, "locked": locked}))
    bl = find_func(tree, "GeckoUdpSocket._BusyLock")
    if bl is not None:
        for m in bl.body:
            if isinstance(m, ast.FunctionDef) and m.name in ("__enter__", "__exit__"):
                bad = []
                for n, withs in nodes_with_context(m):
                    if isinstance(n, ast.Attribute) and n.attr == "_busy_count" and not any(with_holds(w, "self._socket._lock") for w in withs):
                        bad.append(n.lineno)
                obs.append(ob("lexical-lock/_BusyLock.%s:busy-counter-under-the-lock" % m.name, not bad, "", {"unlocked": bad}))
    return {"name": "lexical", "backend": "ast-dominance", "obligations": obs, "functions": funcs,
            "samples": [{"obligation": o["name"], "verdict": o["status"]} for o in obs[:2]]}


def _inside_log_call(func, lineno):
    for n in ast.walk(func):
        if isinstance(n, ast.Call) and isinstance(n.func, ast.Attribute) and isinstance(n.func.value, ast.Name) \
                and n.func.value.id in ("_LOGGER", "logger") and n.lineno <= lineno <= (n.end_lineno or n.lineno):
            return True
    return False
