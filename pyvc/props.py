"""Property registry: which sidecars / ground checks decide which property."""
from . import lexical, tables

PROPS = {}


def prop(pid, **kw):
    PROPS[pid] = kw


prop("C16",
     level="proof",
     ground=[lexical.c16_lexical],
     assumptions=[
         "threading.Lock provides mutual exclusion (assumed contract of the library primitive); the proof shows every read and write of the counters is lexically inside `with self._lock`",
         "no thread interleavings are explored",
     ],
     explanation="both get_and_increment_sequence_counter bodies proved against the successor spec for every counter state satisfying the representation invariant (inductive); call-site range obligations for every request factory")

prop("C02",
     level="proof",
     ground=[tables.c02_overlap_ground],
     budget={"quick": 240, "thorough": 900},
     trusted_base=["string axioms: int(format(n, spec)) == n for spec in ('', '02'), and 'HH:MM'.split(':') separates the two integer renderings; int(x / 2**k) == x >> k for 0 <= x < 2**53 (IEEE-754 scaling by a power of two is exact) -- each validated against CPython on 0..65535 in the thorough tier"],
     assumptions=["precondition: the label written is representable in the item's bit field (C18 well-formedness); the two shipped items violating it are C18 known findings",
                  "the device applies a write by storing the big-endian word at the written position (spec function apply_write)"],
     explanation="per accessor shape: _set_value / async_set_value proved against write-addresses-item, word-fits, bit-level frame, read-back via the real _get_value on the spliced block")

prop("C18",
     level="proof",
     ground=[tables.c18_ground],
     assumptions=["the layout pinned in tables/pinned_layout.json was generated from the audited commit 236b7b1 by `python3-vt -m pyvc.tables pin`"],
     explanation="finite space enumerated completely: every item of every table module is read from the AST of the working tree (all arguments are literals), the real accessor constructor is executed on every distinct shape to derive length/format/bitmask, and each well-formedness / naming / pinned-layout obligation is evaluated")

prop("C03",
     level="proof",
     bounded=["Observable registry harness (observable_registry): observer lists of 0..3 members (the list is a concrete Python list in the encoding); the per-item notification contracts are unbounded"],
     assumptions=["observers do not raise while being notified (precondition); an observer that calls unwatch_all from inside its callback is covered (removal_during_notification_takes_effect_at_once), other list mutations during a notification are not",
                  "temperature items: the decoded-value comparison is proved in C14 (float injectivity); here all non-temperature shapes"],
     explanation="replace_status_block_segment + status_block_changed proved per accessor shape: notify exactly once with (old,new) iff decoded value differs, observer sees the new block; symbolic block/offset/patch incl. straddling patches")

prop("C14",
     level="proof",
     ground=[tables.c14_presentation_ground, tables.c14_temp_items_ground],
     budget={"quick": 240, "thorough": 900},
     assumptions=["the stored word enters through the assumed contract of the base Word read (any 16-bit word); the base read/write themselves are proved in C02",
                  "IEEE-754 binary64 with round-to-nearest-even for / * - + and truncation for int(): z3 FloatingPoint theory",
                  "device range of a temperature: 0..3640 C / 32..6585 F (word 0..65535); values outside make struct.pack raise and are outside the statement"],
     explanation="raw/18 and (raw+320)/10 both ways in IEEE double: exact read-back for all 65536 words x 2 units x 2 write paths (quick); within-one-step and monotonicity over all doubles in range (thorough); unit symbol/limits and the operation decision table")

prop("C04",
     level="proof",
     ground=[tables.c04_regex_bounded],
     budget={"quick": 60, "thorough": 300},
     bounded=["GeckoPacketProtocolHandler._extract_packet_parts (re.search): bounded stand-in c04_packet_regex_bounded -- every string of <= 4 tokens over {8 frame delimiters, newline, 'x', 'STATV'} in each of the three fields, real function, native; callers use its ASSUMED contract"],
     assumptions=["identifiers contain no frame delimiter / separator (SPA.. / IOS.. style); spa identifiers start with 'SPA'",
                  "Python's regular expression engine is outside the verifier: see bounded"],
     explanation="per message constructor: layout vs literal in.touch2 spec, decode(encode)=id via the real peer handle, exclusivity over all 15 standard handler classes, src/dst swap; config-file message ground over all shipped platform x cfg x log combinations")

prop("C01",
     level="proof",
     ground=[tables.c04_regex_bounded],
     bounded=["framing of a segment inside <DATAS>..</DATAS> (GeckoPacketProtocolHandler._extract_packet_parts, re.search): bounded stand-in c04_packet_regex_bounded -- block contents that spell frame delimiters must travel intact; shared with C04"],
     budget={"quick": 60, "thorough": 300},
     assumptions=["ENVIRONMENT contract (assumed, it is the property's fault model): while a transfer is in progress every delivered STATV is some element of the spa's chain for that transfer -- any order, multiplicity or omission -- or the wait times out; delays longer than the gap between distinct transfers and forged segments are excluded",
                  "asyncio.Lock mutual exclusion (assumed contract of the library primitive)",
                  "threaded class: 'configured number of requests' is read as 1 + retry_count transmissions (the engine counts re-transmissions, see C20)"],
     explanation="simulator chain by loop invariant; async get by two nested loop invariants (retry accounting, join(segments) = spa prefix) for every loss/dup/reorder pattern; threaded reassembly as a representation invariant preserved by every delivered segment; STATV/STATU codec shared with C04")

prop("C05",
     level="proof",
     ground=[lexical.c05_lexical, tables.c04_regex_bounded],
     bounded=["framing of a partial update inside <DATAS>..</DATAS> (GeckoPacketProtocolHandler._extract_packet_parts, re.search): bounded stand-in c04_packet_regex_bounded -- payloads containing newline bytes / frame delimiters must reach the handler; shared with C04"],
     assumptions=["history clause by induction outside the solver: every operation (STATP message, refresh install) has a functional contract block' = op(block) that depends on no hidden state (buffer invariant proved), so a history is the composition of the per-operation contracts",
                  "message well-formedness (STATP, count, 4-byte records, last record >= 2 bytes) is a precondition; STATQ datagrams arriving at the client are outside the property",
                  "sequence numbers: the contract of get_and_increment_sequence_counter(False) used at the acknowledgement is discharged on the real counters of both connection classes (harnesses shared with C16)"],
     explanation="per-message decode contract incl. stale-buffer independence, exactly one STATQ ack 1..191, per-record step contract of both apply loops (loop cut: one splice per record, in order), threaded buffer cleared; lexical atomicity of the async path")

prop("C17",
     level="proof",
     ground=[tables.c17_tables_native_ground],
     assumptions=["asyncio.wait([f], timeout=d) returns as soon as f is done or after d seconds (assumed contract of the library primitive); no scheduler interleavings are explored",
                  "set_config_mode is called only after some config_sleep created the wake-up future (the `assert ConfigChange is not None` in the code is taken as its precondition)",
                  "device-list sizes: 0..6 pump-class devices and 0..1 blower (everything GeckoConstants.DEVICES can produce)"],
     explanation="full-table copy incl. completeness of CONFIG_MEMBERS against the class attributes; active <=> any pump/blower on; wake-up as a monitor invariant preserved by config_sleep's prefix and established by set_config_mode")

prop("C06",
     level="proof",
     ground=[lexical.c06_lexical],
     assumptions=["asyncio.Lock is mutually exclusive and FIFO (ASSUMED contract of the library primitive): from it and the proved lexical obligation 'every request transmission is inside async with <protocol>.Lock' follow one-in-flight, arrival-order service and completion of every caller; this inference is not machine-checked",
                  "asyncio.sleep(d) / asyncio.wait(timeout=d) return within d + J, J = 0.05 s (ASSUMED); the time bound proved is retry_count x (timeout + pause + 2 (poll 0.1 s + J)): the statement's bound is read modulo the polling interval",
                  "the gates are evaluated when the call arrives; a state change between the gate test and the lock acquisition is not decided (concurrency)"],
     explanation="wait_for_response and get proved with loop invariants under a ghost clock (attempt accounting, fresh build per attempt, reply only if delivered, time bound); gates; ping timestamp moves only on a delivered reply; lexical lock domination")

prop("C07",
     level="proof",
     ground=[lexical.c07_lexical, tables.c04_regex_bounded],
     bounded=["frame parsing of an addressed packet (GeckoPacketProtocolHandler._extract_packet_parts, re.search): bounded stand-in c04_packet_regex_bounded, identifiers incl. one containing '<'; shared with C04"],
     assumptions=["rely condition at every suspension point: other consumer tasks may remove the head (clearing the mark) and producers may append; only the unhandled consumer marks -- checked lexically",
                  "asyncio.Queue is modelled as a list (put_nowait appends, get_nowait removes the first element)",
                  "head-of-line clause: proved as progress per iteration of the discard loop (whatever was at the head when an iteration began is gone when it ends, for every datagram content; producers never clear the mark; every arrival is appended, any queue length); that every consumer task gets to run once per polling interval is ASSUMED (asyncio scheduling fairness is not modelled), so the bound in wall-clock polling intervals is conditional on it"],
     explanation="queue representation invariant (ghost marked item), consume / unhandled consume loop contracts with interference at every suspension point, addressed-packet gate with all four address components symbolic")

prop("C20",
     level="proof",
     ground=[lexical.c20_lexical, tables.c04_regex_bounded],
     bounded=["cleanup_removes_exactly_the_finished: 0..4 registered handlers (list comprehension over a concrete list)", "sends_leave_in_fifo_order_paced: 0..3 queued sends (only the head is touched)"],
     assumptions=["threading.Lock mutual exclusion (ASSUMED); no thread interleavings explored",
                  "NOT decided as a whole: the blocking client completing its handshake against the simulator under every loss pattern within the retry budget (liveness across two engine threads). Proved per step instead: every engine step contains every failure (so the engine survives), each answered handshake step registers and queues exactly the next request with a retry budget (version -> channel -> config -> full block, all shipped table names), the per-datagram reassembly step (shared with C01) and the finishing hook, which never raises however long the handshake takes",
                  "'retransmitted exactly N times' is read per engine iteration: one retransmission per consumed retry, removal at retry 0"],
     explanation="per-step contracts of one engine iteration under a ghost clock: FIFO + throttle + time-stamp of _process_send_requests, first-match dispatch by loop invariant over a list of any length with an uninterpreted acceptance predicate, exception containment, retry accounting, cleanup; lexical lock domination")

prop("C13",
     level="proof",
     ground=[tables.c13_command_tables_ground],
     assumptions=["spa model (ASSUMED, outside the code): the spa applies a set-value word at the written position and echoes it as a partial update; a key press toggles the device it belongs to",
                  "the request engine (retry, lock) is the contract proved in C06; here it is a stand-in that builds the request once",
                  "commands are issued while connected and answering pings (the gates are C06)"],
     explanation="switch/pump/heater/watercare command contracts over the whole device table and every current state; SPACK/SETWC bytes with symbolic pack type, versions, position, word and the real sequence counter inlined; accessor -> spa -> echo -> read-back per command item shape")

prop("C15",
     level="proof",
     bounded=["reply_listed_once_and_filter_honoured / blocking_reply_listed_once_and_request_recognised: 0..2 spas already listed"],
     assumptions=["reply timing is the environment: the reply handler may run any number of times at each suspension point of discover (havoc of the result list subject to its invariant)",
                  "asyncio.sleep(d) returns within d + 0.05 s (ASSUMED); 'within the discovery timeout' is proved modulo one polling interval (0.1 s)",
                  "spa identifiers are 'SPA..' style (not '1', not starting with IOS/AND): hello decode precondition, see C04",
                  "task cancellation is requested (Task.cancel) -- that a cancelled task terminates is C10"],
     explanation="per-reply contract and invariant of the discovery callback; discover loop invariant under a ghost clock: exit conditions, time bound, endpoint closed, helper tasks cancelled")

prop("C08",
     level="proof",
     assumptions=["events raised concurrently by other tasks while a client event handler is suspended: explored only for the completion window of a connect (an RF-error storm or retry exhaustion reported by the spa's own tasks while the client handles CONNECTION_SPA_COMPLETE); elsewhere _handle_event is taken as sequential",
                  "the client's handle_event does not modify manager state",
                  "spa-raised events presuppose a spa object; RUNNING_SPA_WATER_CARE_ERROR presupposes a facade; CONNECTION_STARTED presupposes a configured identifier (ReconnectButton needs unique_id)"],
     explanation="_handle_event compared with the lifecycle table for every event in every invariant state (ground enumeration through the real code), delivery-point assertions in the abstract handle_event, ready/teardown ghost bracket, try/finally brackets of locate/connect incl. exceptional exits, reset post-state")

prop("C09",
     level="proof",
     assumptions=["PARTIAL claim. NOT decided: that the per-step contracts compose to 'CONNECTED within a bounded time once the network is healthy' for every fault script and task schedule (a liveness property of ~10 tasks, the event loop and the network: no per-function contract expresses it), and that the facade values then mirror the spa (per connection that is C01/C05/C11)",
                  "decided per step, for every state / time / reply pattern: detection (ping loop iteration under a ghost clock), trigger (lifecycle table + reset, shared with C08), restart (sequence pump iteration from every manager state), refresh reporting, and the absence of dead-end lifecycle states",
                  "asyncio.sleep / config_sleep(d) return within d + J, J = 0.05 s (ASSUMED); the engine's attempt time bound is C06's",
                  "the locate / connect phases are stand-ins in the pump harness (their brackets are C08's, shared here); a phase raising is modelled by OSError / RuntimeError"],
     explanation="the recovery argument broken into contracts on the real functions: _ping_loop (silence reported in the iteration in which the timeout elapses, answer reported and time-stamped), _handle_event table and async_reset (shared with C08), _sequence_pump (locates exactly when IDLE without descriptors, connects exactly when LOCATED with identifier and no facade, only cancellation ends it), _refresh_loop (exhaustion reported, nothing sent when it must keep quiet), no dead-end state")

prop("C10",
     level="proof",
     budget={"quick": 60, "thorough": 300},
     assumptions=["Task.cancel() delivers asyncio.CancelledError at the task's current await (asyncio contract, ASSUMED); the proof shows every task coroutine lets it propagate and every abandoned connection closes what it opened",
                  "effects of datagrams already queued in other tasks at the moment of the reset are not explored",
                  "the reset path itself (spa.disconnect) is not interrupted"],
     explanation="typestate ghosts for endpoints and tasks; CancelledError injected at a symbolic await ordinal in discover and in the whole connect handshake followed by the reset path; cancellation propagation of every task coroutine by loop cut")

prop("C11",
     level="proof",
     budget={"quick": 60, "thorough": 300},
     assumptions=["209 representative combinations stand for all 895: two combinations are in one class iff every item the facade reads (keys, shape AND position), the output / device / user-demand / error key lists are identical -- the facade code then executes identically for every block",
                  "temperatures read as some finite non-negative float (exact values: C14)",
                  "members that read the wall clock (Reminder.monitor, datetime.now) are havoc'd",
                  "text renderings of symbolic values are opaque (SymText): only their evaluation without raising is claimed"],
     explanation="exception-freedom (default postcondition) of the real GeckoAsyncFacade constructor and of every read-only member, per combination class with a symbolic 1024-byte block; guarded collections merge symbolic comprehension filters; decode contract proved per shape; watercare bytes 0..255 and arbitrary reminder records")

prop("C12",
     level="proof",
     ground=[tables.c12_wiring_tables_ground],
     budget={"quick": 60, "thorough": 300},
     assumptions=["combination classes as in C11; combinations on which no facade can be constructed (C11 known findings: no TempUnits / heater items missing) are outside this property's reach (precondition)",
                  "guarded lists: constructors and loop bodies of guarded elements are executed speculatively (their side effects on other objects -- observer registration -- over-approximate); exceptions and returns under a guard fork on the guard",
                  "the blocking GeckoFacade.scan_outputs is under the same contract except for order (it de-duplicates through set(), whose iteration order is unspecified)"],
     explanation="presence guard of every element of the facade's pump / blower / light lists proved equivalent to the wiring condition of the statement, for every block; order, class, name, demand item and mode list from the device table; sensor lists; distinct keys and unique ids; lookup by key")

prop("C19",
     level="proof",
     ground=[tables.c19_parse_bounded, tables.c19_shipped_files_ground, tables.c19_writer_parser_bounded],
     bounded=["traffic_segment_round_trips_bounded: GeckoSnapshot._re_data_segment on every 1-byte payload and every 2-byte payload whose first byte is one of 19 tricky values (quick) / any value (thorough)",
              "c19_writer_parser_bounded: GeckoShell.do_snapshot -> log file -> GeckoSnapshot.parse_log_file, 151 version/name cases x fixed blocks (native)"],
     assumptions=["PARTIAL claim. ASSUMED and outside the verifier: regular-expression capture (which substring of a log line reaches each handler), logging.Formatter ('%s' of a list is str(list), of bytes is repr(bytes)), file iteration in parse_log_file, datetime",
                  "shipped snapshot files: a finite closed set, enumerated COMPLETELY through the real parse_log_file and GeckoSimulator.set_snapshot by native execution (ground, not deductive: regular expressions and file iteration are outside the verifier); serving the loaded block to a client is the simulator chain contract shared with C01",
                  "writer side (GeckoShell.version_strings / do_snapshot through logging.Formatter): BOUNDED native round trip only -- every shipped platform x config x log name with config != log, 6 blocks, 4 snapshot names",
                  "the traffic-log reassembly of whole transfers reuses the C01 chain contract; only the per-segment text decode is checked here, bounded",
                  "repr() / ast.literal_eval / str() / hex() on concrete values are executed by CPython (partial evaluation)"],
     explanation="hex-list decode: element lemmas for all 256 byte values + separator lemma + one full block through the real _re_data (ground, complete); header getters; set_snapshot contract per platform with differing config/log versions and a symbolic block; bounded per-segment traffic decode")
