"""Property registry: which sidecars / ground checks decide which property."""
from . import lexical, tables

PROPS = {}


def prop(pid, **kw):
    PROPS[pid] = kw


prop("C16",
     level="proof",
     ground=[lexical.c16_lexical],
     assumptions=[
         "threading.Lock provides mutual exclusion (assumed contract of the library primitive); the proof shows every read and write of the counters is lexically inside `with self._lock`",
         "no thread interleavings are explored",
     ],
     explanation="both get_and_increment_sequence_counter bodies proved against the successor spec for every counter state satisfying the representation invariant (inductive); call-site range obligations for every request factory")
