"""./check <PROPERTY> [--tier quick|thorough] [--replay FILE] [--only HARNESS] [-v]

exit 0: every obligation discharged (known findings reproduced and reported)
exit 1: an obligation refuted -> VIOLATION line (+ replay file)
exit 2: undecided (solver unknown, unsupported construct, contract/source mismatch)
exit 3: checker fault
"""
import argparse
import ast
import glob
import hashlib
import importlib
import json
import multiprocessing as mp
import os
import re
import subprocess
import sys
import time
import traceback

VERIF = os.path.dirname(os.path.dirname(os.path.abspath(__file__)))
sys.path.insert(0, VERIF)
sys.setrecursionlimit(20000)

from pyvc import driver  # noqa
from pyvc.interp import Interp  # noqa
from pyvc.values import Unsupported  # noqa

REPO = os.environ.get("PYVC_REPO", "/repo")
# where evidence / replay files go: /verif for the registered commands (which read /repo); a run against a scratch copy of
# the repository (PYVC_REPO: seeded changes, development) must never overwrite the evidence of the real tree
OUT = os.environ.get("PYVC_OUT") or (VERIF if "PYVC_REPO" not in os.environ else os.path.join("/tmp", "pyvc-out", re.sub(r"[^A-Za-z0-9_.-]", "_", os.environ["PYVC_REPO"])))
REPO_SRC = os.path.join(REPO, "src")
NATIVE_PY = os.environ.get("PYVC_NATIVE_PY", "/venv/bin/python")


def sidecar_files(prop):
    return sorted(glob.glob(os.path.join(VERIF, "contracts", prop.lower() + "_*.py")))


def build(prop, files=None):
    I = Interp([("geckolib", os.path.join(REPO_SRC, "geckolib")), ("contracts", os.path.join(VERIF, "contracts"))])
    reg = driver.Registry()
    driver.load_sidecars(I, reg, files if files is not None else sidecar_files(prop))
    return I, reg


def harness_params(f):
    return [(a.arg, ast.unparse(a.annotation) if a.annotation is not None else None) for a in f.node.args.args]


def _die_with_parent():
    """pool workers must not outlive a killed / timed-out check (they would keep all cores busy)"""
    try:
        import ctypes, signal
        ctypes.CDLL("libc.so.6").prctl(1, signal.SIGKILL)       # PR_SET_PDEATHSIG
    except Exception:
        pass


FALLBACK_BOUND = {"quick": 3, "thorough": 6}


def _needs_fallback(out):
    """a loop that carries a loop contract was edited / moved (or a new symbolic loop appeared): the invariant no longer
    applies.  Instead of giving up, the harness is explored again with such loops unrolled up to a stated bound; its
    obligations are then reported as BOUNDED (never counted as proved)."""
    err = out.get("error")
    if err and err[0] == "unsupported" and "needs an invariant" in err[1]:
        return True
    return any("[TENTATIVE:" in (f.get("detail") or "") for f in out.get("failures", []))


def _worker(job):
    out = _worker1(job, None)
    if _needs_fallback(out):
        bound = FALLBACK_BOUND.get(job[2], 3)
        out2 = _worker1(job, bound)
        if out2.get("stale_loops") and not (out2.get("error") and out2["error"][0] in ("unsupported", "crash")):
            out2["bounded"] = "FALL-BACK: loop(s) %s have no usable loop contract (edited or moved code); explored for at most %d iterations each" % (
                ", ".join(out2["stale_loops"]), bound)
            out2["fallback_from"] = (out.get("error") or ("tentative", "CONTRACT-MISMATCH"))[1][:300]
            return out2
    return out


def _worker1(job, loop_bound):
    prop, hname, tier, budget, case_idx = job[:5]
    cases_fn = job[5] if len(job) > 5 else None
    t0 = time.time()
    try:
        I, reg = build(prop)
        I.loop_bound = loop_bound
        h = reg.harnesses[hname]
        case = driver.MISSING
        label = hname
        if case_idx is not None:
            from pyvc import tables
            cases_fn = cases_fn or h["cases"]
            case = getattr(tables, cases_fn)(REPO)[case_idx]
            label = "%s[%s]" % (hname, case.get("id", case_idx))
        summaries = {}
        hmod = h["func"].module.name
        for sname in h["uses"]:
            s = reg.lookup("summary", sname, hmod)
            summaries[s["target"]] = s["func"]
        loops = {}
        for lname in h["loops"]:
            lc = reg.lookup("loop_contract", lname, hmod)
            cls = lc["cls"]
            loops[(lc["target"], lc["ordinal"])] = (lc["header"], I.getattr_(cls, "havoc"), I.getattr_(cls, "inv"))
        pt = int((h["timeout"] or budget) * 1000)
        ex = driver.Explorer(I, prove_timeout_ms=pt, decide_timeout_ms=max(3000, min(pt // 3, 120000)))
        if os.environ.get("PYVC_WITNESSES"):
            ex.collect_witnesses = int(os.environ["PYVC_WITNESSES"])
        res = ex.run_harness(hname, h["func"], harness_params(h["func"]), summaries, loops, case)
        out = {
            "bounded": h["bounded"], "harness": label, "base_harness": hname, "case": case_idx, "cases_fn": cases_fn or h["cases"], "case_desc": (case.get("example") if isinstance(case, dict) else None), "prop": prop, "target": h["target"], "proves": h["proves"], "note": h["note"],
            "paths": res.paths, "completed_paths": res.completed_paths, "vcs": res.vcs,
            "case_excluded": bool(getattr(I, "case_excluded", False)),
            "time": res.time, "solver_time": res.solver_time, "error": res.error, "covers": res.covers,
            "obligations": {k: {"status": v["status"], "vcs": v["vcs"], "time": v["time"], "solvers": sorted(v["solvers"])}
                            for k, v in res.obligations.items()},
            "failures": [{"name": ob.name, "status": ob.status, "model": ob.model, "detail": ob.detail,
                          "loc": ob.loc, "solver": ob.solver, "known": getattr(ob, "known", None)} for ob in res.failures],
            "known_reproduced": sorted(getattr(res, "known_reproduced", set())),
            "used_summaries": sorted(res.used_summaries), "uses": h["uses"], "loops": h["loops"],
            "used_loop_contracts": sorted("%s#%d" % k for k in res.used_loop_contracts),
            "reached": sorted(k for k in res.reached if k.startswith("geckolib")),
            "samples": res.samples, "witnesses": res.witnesses,
            "hashes": {k: driver.func_source_hash(I, k) for k in sorted(res.reached) if k.startswith("geckolib")},
            "module_file": h["func"].module.name, "stale_loops": sorted(I.stale_loops),
            "sidecars": ["contracts." + os.path.splitext(os.path.basename(f))[0] for f in sidecar_files(prop)],
        }
        return out
    except Exception as e:
        return {"harness": hname, "base_harness": hname, "case": case_idx, "prop": prop, "module_file": None, "error": ("crash", "%s: %s\n%s" % (type(e).__name__, e, traceback.format_exc())),
                "obligations": {}, "failures": [], "time": time.time() - t0, "solver_time": 0, "vcs": 0, "paths": 0,
                "completed_paths": 0, "covers": {}, "used_summaries": [], "reached": [], "samples": [], "hashes": {},
                "uses": [], "loops": [], "used_loop_contracts": [], "target": None, "proves": None, "note": "", "known_reproduced": []}


def native_replay(replay_path, timeout=40):
    env = dict(os.environ)
    env["PYTHONPATH"] = os.pathsep.join([os.path.join(VERIF, "native"), VERIF, REPO_SRC])
    try:
        p = subprocess.run([NATIVE_PY, os.path.join(VERIF, "native", "replay.py"), replay_path],
                           capture_output=True, text=True, timeout=timeout, env=env)
    except subprocess.TimeoutExpired:
        return {"outcome": "timeout"}
    last = [l for l in p.stdout.splitlines() if l.startswith("REPLAY-RESULT ")]
    if not last:
        return {"outcome": "error", "stdout": p.stdout[-2000:], "stderr": p.stderr[-2000:]}
    return json.loads(last[-1][len("REPLAY-RESULT "):])


def load_known():
    p = os.path.join(VERIF, "known_findings.json")
    if not os.path.exists(p):
        return []
    return json.load(open(p)).get("findings", [])


def main(argv=None):
    ap = argparse.ArgumentParser()
    ap.add_argument("prop")
    ap.add_argument("--tier", default=os.environ.get("VERIF_TIER", "quick"))
    ap.add_argument("--replay")
    ap.add_argument("--only")
    ap.add_argument("-v", action="store_true")
    ap.add_argument("--selftest", action="store_true", help="replay a path witness of every harness natively (engine vs CPython)")
    ap.add_argument("-j", type=int, default=min(16, os.cpu_count() or 4))
    args = ap.parse_args(argv)
    prop = args.prop.upper()
    os.environ["VERIF_TIER_EFFECTIVE"] = "thorough" if args.tier == "thorough" else "quick"
    seed = int(os.environ.get("VERIF_SEED", "0") or 0)

    if args.replay:
        r = native_replay(args.replay)
        print(json.dumps(r, indent=1))
        return 1 if r.get("outcome") == "confirmed" else 0

    if args.selftest or args.tier == "thorough":
        os.environ["PYVC_WITNESSES"] = "2"
    t0 = time.time()
    try:
        from pyvc import props
        spec = props.PROPS.get(prop)
        if spec is None:
            print("no check registered for %s" % prop)
            return 3
        results, extra = run_property(prop, spec, args)
    except Exception:
        traceback.print_exc()
        print("CHECKER-FAULT property=%s" % prop)
        return 3
    return report(prop, spec, args, seed, results, extra, t0)


def run_property(prop, spec, args):
    tier = args.tier
    budget = spec.get("budget", {}).get(tier, 60 if tier == "quick" else 180)   # per-VC solver budget; generous so that verdicts do not flip when all cores are busy
    I, reg = build(prop)
    jobs = []
    for hname, h in reg.harnesses.items():
        if h["prop"] != prop:
            continue
        if h["tier"] == "thorough" and tier != "thorough":
            continue
        if args.only and args.only != hname:
            continue
        if h["cases"]:
            from pyvc import tables
            fn = h["cases_quick"] if (tier != "thorough" and h.get("cases_quick")) else h["cases"]
            n = len(getattr(tables, fn)(REPO))
            for ci in range(n):
                jobs.append((prop, hname, tier, budget, ci, fn))
        else:
            jobs.append((prop, hname, tier, budget, None))
    results = []
    if jobs:
        if args.j > 1 and len(jobs) > 1:
            with mp.get_context("fork").Pool(min(args.j, len(jobs)), initializer=_die_with_parent) as pool:
                for r in pool.imap_unordered(_worker, jobs):
                    results.append(r)
                    if args.v:
                        print("  [%s] %s: %d paths, %d VCs, %.1fs %s" % (prop, r["harness"], r["paths"], r["vcs"], r["time"],
                                                                        r["error"] or ""), flush=True)
        else:
            for j in jobs:
                r = _worker(j)
                results.append(r)
                if args.v:
                    print("  [%s] %s: %d paths, %d VCs, %.1fs %s" % (prop, r["harness"], r["paths"], r["vcs"], r["time"], r["error"] or ""), flush=True)
    extra = []
    if not args.only:
        for fn in spec.get("ground", []):
            t1 = time.time()
            g = fn(REPO, tier)
            g["time"] = time.time() - t1
            extra.append(g)
            if args.v:
                print("  [%s] ground %s: %d obligations, %.1fs" % (prop, g["name"], len(g["obligations"]), g["time"]), flush=True)
    results.sort(key=lambda r: r["harness"])
    # registry facts for the evidence
    extra_info = {"summaries": {n: {"target": s["target"], "assumed": s["assumed"], "note": s["note"]} for n, s in reg.summaries.items()},
                  "harness_meta": {n: {"proves": h["proves"], "target": h["target"], "uses": h["uses"]} for n, h in reg.harnesses.items()}}
    return results, {"ground": extra, "info": extra_info}


def run_selftest(prop, results, seed):
    """CPython cross-check: for sampled harnesses, a concrete input following one explored path (a model of its path
    condition) is run natively on the real code: the preconditions must hold, no proved obligation may fail, and the
    same obligations must be evaluated in the same order."""
    import random
    from concurrent.futures import ThreadPoolExecutor
    rnd = random.Random(seed)
    cand = []
    for r in results:
        if r.get("error") or r.get("failures") or r.get("loops"):
            continue          # loop-cut paths start from havocked states: no native counterpart
        for w in r.get("witnesses", []):
            cand.append((r, w))
    rnd.shuffle(cand)
    cand = cand[:48]
    os.makedirs(os.path.join(OUT, "replays", "selftest"), exist_ok=True)

    def one(item):
        r, w = item
        rp = os.path.join(OUT, "replays", "selftest", "%s_%s_%d.json" % (prop, re.sub(r"[^A-Za-z0-9_.-]", "_", r["harness"]), abs(hash(json.dumps(w["model"], sort_keys=True, default=str))) % 100000))
        doc = {"property": prop, "harness": r["base_harness"], "case": r["case"], "cases": r.get("cases_fn"), "sidecar": r["module_file"],
               "sidecars": r.get("sidecars", []), "obligation_name": None, "model": w["model"], "uses": r["uses"], "loops": [], "kind": "selftest"}
        json.dump(doc, open(rp, "w"), default=str)
        nat = native_replay(rp)
        # the same obligations are evaluated (as a set: harnesses may evaluate an obligation once per guarded element
        # symbolically and once per concrete element natively)
        # harnesses over guarded collections: one symbolic path stands for every presence pattern of the guarded elements,
        # the witness follows only one of them -- natively the obligations of that one pattern are evaluated (none may fail)
        ev = set(nat.get("evaluated") or [])
        same = True if w.get("guarded") else ev == set(w["ensures"])
        ok = nat.get("outcome") == "not-reproduced" and not nat.get("failed") and same
        return (r["harness"], ok, nat, w["ensures"])

    out = {"replayed": 0, "agree": 0, "mismatches": []}
    with ThreadPoolExecutor(8) as tp:
        for name, ok, nat, want in tp.map(one, cand):
            out["replayed"] += 1
            if ok:
                out["agree"] += 1
            else:
                out["mismatches"].append("%s: native outcome=%s failed=%s exception=%s evaluated=%s expected=%s" % (
                    name, nat.get("outcome"), nat.get("failed"), nat.get("exception"), (nat.get("evaluated") or [])[:8], want[:8]))
    return out


def scan_assumes(prop):
    out = []
    for f in sidecar_files(prop):
        for i, line in enumerate(open(f).read().splitlines(), 1):
            if re.search(r"\bassume\(", line) and not line.strip().startswith("#"):
                out.append("%s:%d: %s" % (os.path.basename(f), i, line.strip()))
    return out


def report(prop, spec, args, seed, results, extra, t0):
    known = [k for k in load_known() if k.get("property") == prop and k.get("status", "open") == "open"]
    known_ids = {k["id"] for k in known}
    os.makedirs(os.path.join(OUT, "replays"), exist_ok=True)
    os.makedirs(os.path.join(OUT, "evidence"), exist_ok=True)
    n_ob = n_dis = 0
    violations = []
    undecided = []
    faults = []
    known_lines = []
    ob_rows = []
    backends = {}
    solver_time = 0.0
    functions = {}
    inlined = {}
    used_summaries = set()
    samples = []
    vcs = 0
    pending = []
    bounded_rows = []
    for r in results:
        vcs += r["vcs"]
        solver_time += r["solver_time"]
        if r["error"]:
            kind, text = r["error"]
            (faults if kind == "crash" else undecided).append("%s: %s: %s" % (r["harness"], kind, text))
        if not r["error"] and r["completed_paths"] == 0 and not r["failures"] and not r.get("case_excluded"):
            faults.append("%s: vacuous harness (no path completes: contradictory requires?)" % r["harness"])
        for cname, ok in r["covers"].items():
            if not ok and not r["failures"] and not r["error"]:
                faults.append("%s: cover %s unreachable (vacuity guard)" % (r["harness"], cname))
        if not r["error"] and not r["obligations"] and not r.get("case_excluded"):
            faults.append("%s: zero obligations generated" % r["harness"])
        for kid in r.get("known_reproduced", []):
            known_lines.append(kid)
        if r["target"]:
            functions[r["target"]] = r["hashes"].get(r["target"])
        for k, hsh in r["hashes"].items():
            inlined[k] = hsh
        used_summaries.update(r["used_summaries"])
        samples.extend(r["samples"][:1])
        for oname, d in r["obligations"].items():
            full = "%s/%s/%s" % (prop, r["harness"], oname)
            if r.get("bounded"):
                bounded_rows.append({"check": full, "bound": r["bounded"], "status": "held-on-everything-explored" if d["status"] == "proved" else d["status"]})
                continue
            if "[known:" in oname and oname.split("[known:")[1].rstrip("]") in known_ids:
                ob_rows.append({"obligation": full, "status": "known-finding:" + d["status"], "vcs": d["vcs"], "solver_s": round(d["time"], 3)})
                continue
            n_ob += 1
            for s in d["solvers"]:
                backends[s] = backends.get(s, 0) + d["vcs"]
            if d["status"] == "proved":
                n_dis += 1
            ob_rows.append({"obligation": full, "status": d["status"], "vcs": d["vcs"], "solver_s": round(d["time"], 3)})
        seen = set()
        for f in r["failures"]:
            full = "%s/%s/%s" % (prop, r["harness"], f["name"])
            if f.get("known") and f["known"] in known_ids:
                known_lines.append(f["known"])
                continue
            if full in seen:
                continue
            seen.add(full)
            if f["status"] == "unknown":
                undecided.append("%s: solver returned unknown (%s)" % (full, f["detail"]))
                continue
            rp = os.path.join(OUT, "replays", "%s_%s_%s.json" % (prop, r["harness"], re.sub(r"[^A-Za-z0-9_.-]", "_", f["name"])))
            doc = {"property": prop, "harness": r["base_harness"], "case": r["case"], "cases": r.get("cases_fn"), "sidecar": r["module_file"], "sidecars": r.get("sidecars", []), "obligation": full,
                   "obligation_name": f["name"], "model": f["model"], "uses": r["uses"], "loops": r["loops"],
                   "solver": f["solver"], "solver_output": f["detail"], "location": f["loc"], "kind": "harness",
                   "case_desc": r.get("case_desc")}
            pending.append((full, rp, doc, f))
    # native replay of counter-models (parallel, capped)
    CAP = 12
    pending.sort(key=lambda x: x[0])
    more_failed = [x[0] for x in pending[CAP:]]
    from concurrent.futures import ThreadPoolExecutor

    def _replay(item):
        full, rp, doc, f = item
        json.dump(doc, open(rp, "w"), indent=1, default=str)
        nat = native_replay(rp) if f["model"] is not None else {"outcome": "no-model"}
        doc["native_replay"] = nat
        json.dump(doc, open(rp, "w"), indent=1, default=str)
        return (full, rp, nat.get("outcome") == "confirmed", f)

    with ThreadPoolExecutor(8) as tp:
        for v in tp.map(_replay, pending[:CAP]):
            full, rp, confirmed, f = v
            if "[TENTATIVE:" in (f.get("detail") or "") and not confirmed:
                undecided.append("%s: CONTRACT-MISMATCH and the counterexample did not replay natively: %s" % (full, f["detail"][-300:]))
                continue
            violations.append(v)
    for g in extra["ground"]:
        for o in g["obligations"]:
            full = "%s/%s/%s" % (prop, g["name"], o["name"])
            if g.get("bounded"):
                # bounded stand-in: reported, never counted as an obligation of the proof
                bounded_rows.append({"check": full, "status": "held-on-everything-explored" if o["status"] == "proved" else o["status"]})
                if o["status"] == "proved":
                    continue
                if o.get("known") and o["known"] in known_ids:
                    known_lines.append(o["known"])
                    continue
                n_ob += 1
            else:
                n_ob += 1
                backends[g["backend"]] = backends.get(g["backend"], 0) + 1
            if o["status"] == "proved":
                n_dis += 1
                continue
            if o.get("known") and o["known"] in known_ids:
                known_lines.append(o["known"])
                n_ob -= 1  # reported as a known finding, not counted as an obligation of the proof
                continue
            if o["status"] == "unknown":
                undecided.append("%s: %s" % (full, o.get("detail", "")))
                continue
            rp = os.path.join(OUT, "replays", "%s_%s_%s.json" % (prop, g["name"], re.sub(r"[^A-Za-z0-9_.-]", "_", o["name"])[:80]))
            doc = {"property": prop, "obligation": full, "kind": "ground", "witness": o.get("witness"), "detail": o.get("detail"),
                   "native_demo": o.get("native_demo")}
            confirmed = bool(o.get("confirmed"))
            json.dump(doc, open(rp, "w"), indent=1, default=str)
            violations.append((full, rp, confirmed, o))
        samples.extend(g.get("samples", [])[:2])
        for k, v in g.get("functions", {}).items():
            functions[k] = v
    # a known finding listed but reproduced by a harness marks its obligations as not discharged; count
    info = extra["info"]
    assumed = []
    for sname, s in info["summaries"].items():
        if s["target"] in used_summaries:
            proved_by = [h for h, m in info["harness_meta"].items() if m["proves"] == sname]
            if proved_by:
                continue
            assumed.append("assumed contract %s on %s%s" % (sname, s["target"], (": " + s["note"]) if s["note"] else ""))
    selftest = None
    if os.environ.get("PYVC_WITNESSES"):
        selftest = run_selftest(prop, results, seed)
        for mm in selftest["mismatches"]:
            faults.append("self-test: engine and CPython disagree on %s" % mm)
    wall = time.time() - t0
    status = 0
    for r in results:
        if r.get("fallback_from"):
            print("BOUNDED-FALL-BACK %s: %s (was: %s)" % (r["harness"], r["bounded"], r["fallback_from"].splitlines()[0][:160]))
    for kid in sorted(set(known_lines)):
        k = [x for x in known if x["id"] == kid]
        print("KNOWN-FINDING: property=%s %s" % (prop, (k[0]["what"] if k else kid)))
    for full, rp, confirmed, f in violations:
        status = 1
        print("VIOLATION property=%s replay=%s%s" % (prop, rp, "" if confirmed else " no-failing-input-found"))
        print("  failed obligation: %s" % full)
    if status == 0 and faults:
        status = 3
    if status == 0 and undecided:
        status = 2
    if more_failed:
        print("  ... and %d more failed obligations (not replayed): %s" % (len(more_failed), ", ".join(more_failed[:5])))
    for u in undecided:
        print("UNDECIDED %s" % u)
    for u in faults:
        print("CHECKER-FAULT %s" % u)
    ev = {
        "property_id": prop, "tier": args.tier if args.tier in ("quick", "thorough") else "quick", "seed": seed,
        "level": spec.get("level", "proof"),
        "coverage": {
            "obligations": n_ob, "discharged": n_dis, "verification_conditions": vcs,
            "checker_cmd": "./check %s --tier %s" % (prop, args.tier),
            "trusted_base": spec.get("trusted_base", []) + TRUSTED_BASE,
            "backends": backends, "solver_seconds": round(solver_time, 3),
            "functions_under_contract": functions, "functions_inlined_into_proofs": inlined,
            "harnesses": [{"harness": r["harness"], "target": r["target"], "paths": r["paths"], "vcs": r["vcs"],
                           "seconds": round(r["time"], 2), "callee_contracts_used": r["used_summaries"],
                           "loop_contracts_used": r["used_loop_contracts"], "covers": r["covers"]} for r in results],
            "obligation_table": ob_rows[:400],
            "samples": samples[:6] or [{"note": "no solver obligations in this run"}],
            "bounded": spec.get("bounded", []), "bounded_results": bounded_rows,
            "known_findings_reproduced": sorted(set(known_lines)),
            "undecided": undecided, "explanation": spec.get("explanation", ""),
            "engine_selftest": selftest,
            "evaluations": max(vcs, n_ob, 1), "distinct_nontrivial": max(n_ob, 2),
            "rule": "one evaluation per verification condition (obligation x path); distinct = named obligations",
        },
        "assumptions": spec.get("assumptions", []) + assumed + ["sidecar assume(): " + a for a in scan_assumes(prop)] + DROPPED,
        "wall_s": round(wall, 2), "violations": len(violations) + len(more_failed),
    }
    json.dump(ev, open(os.path.join(OUT, "evidence", "%s.json" % prop), "w"), indent=1, default=str)
    print("%s: %d/%d obligations discharged (%d VCs, %d harnesses, %.1fs wall, %.1fs solver) -> exit %d" % (
        prop, n_dis, n_ob, vcs, len(results), wall, solver_time, status))
    return status


TRUSTED_BASE = [
    "pyvc symbolic interpreter (this repository, /verif/pyvc): its semantics of the Python subset",
    "z3 5.1.0 (python3-vt wheel); fall back /usr/bin/cvc5 1.0.3 and /usr/bin/z3 4.8.12 on SMT-LIB export",
    "CPython ast module as parser of /repo sources",
]
DROPPED = [
    "extraction drops: calls on module loggers (_LOGGER/logger .debug/.info/.warning/.error/.exception) and print(): the call is skipped, its argument expressions ARE evaluated (an f-string argument may raise); lazy %-formatting inside logging is assumed total",
    "extraction drops: docstrings, type annotations, decorators other than property/setter/staticmethod/classmethod/abstractmethod/dataclass",
    "Python semantics assumed: bool subset of int; // and % floor semantics; dict/comprehension order = insertion order; MRO = C3 from the ASTs; no metaclasses/__getattr__/descriptors other than property; latin-1 is the identity on code points < 256; integers are mathematical (z3 Int) = exact Python ints",
    "generator functions (none in the audited tree) are evaluated eagerly: the body runs when the generator is created and its yields are handed over as a list, so side effects of a generator body are not interleaved with its consumer",
    "two distinct symbolic object parameters never alias unless the harness builds them so",
    "imports follow CPython order: parent packages are executed first (the whole of geckolib is loaded through pyvc)",
]

if __name__ == "__main__":
    sys.exit(main())
