"""Native (CPython) implementation of the contract vocabulary.

The same sidecar files that pyvc interprets symbolically are imported for real by the
replay runner; `requires` / `ensures` are then evaluated on concrete values taken from
the solver's counter-model, against the *real* geckolib code of the working tree.
"""
import asyncio
import functools
import importlib

SYMBOLIC = False
MODEL = {}
_USED = {}
FAILED = []          # names of ensures that evaluated to False
PRE_FAILED = []      # requires that were False (model does not satisfy the precondition natively)
COVERED = []
HARNESSES = {}
SUMMARIES = {}
LOOP_CONTRACTS = {}
_ORIG = {}
_MODE = []           # 'summary' while executing a callee contract
EVENTS = []
CLOCK = [0.0]


class PreconditionFailed(Exception):
    pass


def _fresh(name, default):
    n = _USED.get(name, 0) + 1
    _USED[name] = n
    key = name if n == 1 else "%s#%d" % (name, n)
    v = MODEL.get(key, default)
    if isinstance(v, dict):
        if "__pred__" in v:
            return v
        if "__bytes__" in v:
            return bytes.fromhex(v["__bytes__"])
        if "__float__" in v:
            return float(v["__float__"])
        return default
    return v


def fresh_int(name, lo=None, hi=None, bits=None):
    return int(_fresh(name, lo if lo is not None else 0))


def fresh_bool(name):
    return bool(_fresh(name, False))


def fresh_bytes(name, length=None):
    v = _fresh(name, b"")
    if isinstance(length, int):
        v = (v + b"\x00" * length)[:length]
    return v


def fresh_float(name):
    return float(_fresh(name, 0.0))


def fresh_time(name):
    return float(_fresh(name, 0.0))


def requires(cond):
    if _MODE and _MODE[-1] == "summary":
        if not cond:
            FAILED.append("pre@callsite")
        return
    if not cond:
        PRE_FAILED.append(True)
        raise PreconditionFailed()


def assume(cond):
    if not cond:
        PRE_FAILED.append(True)
        raise PreconditionFailed()


EVALUATED = []


def ensures(name, cond):
    if _MODE and _MODE[-1] == "summary":
        if not cond:
            PRE_FAILED.append(True)
            raise PreconditionFailed()
        return
    EVALUATED.append(name)
    if not cond:
        FAILED.append(name)


def cover(name, cond=True):
    if cond:
        COVERED.append(name)


def new(cls, **attrs):
    o = cls.__new__(cls)
    for k, v in attrs.items():
        object.__setattr__(o, k, v)
    return o


def implies(a, b):
    return (not a) or bool(b)


def both(*xs):
    return all(xs)


def either(*xs):
    return any(xs)


def ite(c, a, b):
    return a if c else b


def forall_int(lo, hi, f):
    return all(f(i) for i in range(lo, hi))


def is_symbolic(v):
    return False


def byte_at(b, i):
    """spec helper: b[i]; outside the string an unspecified value (specifications guard it with a length condition)"""
    return b[i] if 0 <= i < len(b) else 0


def concrete_cases(x, lo, hi):
    return x


def clock_now():
    return CLOCK[0]


def advance_clock(lo=None, hi=None):
    d = fresh_time("dt")
    if lo is not None and d < lo:
        d = float(lo)
    CLOCK[0] += d
    return d


def events():
    return list(EVENTS)


def suspension_count():
    return len([e for e in EVENTS if e[0] == "suspend"])


_SLEEP_MODEL = [None]
_SUSPEND_HOOK = [None]


def set_sleep_model(f):
    _SLEEP_MODEL[0] = f


def _run_inline(r):
    """an `async def` hook (another task acting at this suspension point) is driven to completion inline; all awaits in
    a replay are ghost sleeps / stand-ins that never really suspend"""
    if hasattr(r, "send"):
        try:
            r.send(None)
        except StopIteration:
            return
        r.close()
        raise RuntimeError("interference coroutine suspended for real during native replay")


def set_suspend_hook(f):
    if f is None:
        _SUSPEND_HOOK[0] = None
    else:
        _SUSPEND_HOOK[0] = lambda what: _run_inline(f(what))


async def _ghost_sleep(delay, result=None):
    EVENTS.append(("suspend", "sleep"))
    if _SUSPEND_HOOK[0] is not None:
        _SUSPEND_HOOK[0]("sleep")
    if _SLEEP_MODEL[0] is not None:
        _SLEEP_MODEL[0](delay)
    else:
        CLOCK[0] += max(float(delay), fresh_time("sleep"))
    return result


def install_ghost_clock():
    """replay under the ghost clock: time.monotonic reads it, asyncio.sleep advances it"""
    import time
    CLOCK[0] = float(_fresh("clock0", 0.0)) if "clock0" in MODEL else 0.0
    _USED.pop("clock0", None)
    time.monotonic = lambda: CLOCK[0]
    asyncio.sleep = _ghost_sleep


def cancel_here():
    raise asyncio.CancelledError()


def real_body(f, *args, **kw):
    target = getattr(f, "__wrapped_target__", None)
    if target is None and hasattr(f, "__func__"):
        target = getattr(f.__func__, "__wrapped_target__", None)
        if target is not None:
            return target(f.__self__, *args, **kw)
    if target is not None:
        return target(*args, **kw)
    return f(*args, **kw)


def harness(**kw):
    def deco(f):
        HARNESSES[kw.get("name", f.__name__)] = dict(func=f, **kw)
        return f
    return deco


def summary(target=None, **kw):
    def deco(f):
        SUMMARIES[kw.get("name", f.__name__)] = dict(func=f, target=target, **kw)
        return f
    return deco


def loop_contract(target, ordinal, **kw):
    def deco(c):
        LOOP_CONTRACTS[kw.get("name", c.__name__)] = dict(cls=c, target=target, ordinal=ordinal, **kw)
        return c
    return deco


def _resolve(target):
    modname, qual = target.split(":")
    mod = importlib.import_module(modname)
    parts = qual.split(".")
    owner = mod
    for p in parts[:-1]:
        owner = getattr(owner, p)
    return owner, parts[-1]


def install_summary(sname):
    s = SUMMARIES[sname]
    owner, attr = _resolve(s["target"])
    raw = owner.__dict__[attr] if hasattr(owner, "__dict__") and attr in owner.__dict__ else getattr(owner, attr)
    orig = raw
    kind = None
    if isinstance(raw, staticmethod):
        kind = "static"
        orig = raw.__func__
    elif isinstance(raw, property):
        kind = "property"
        orig = raw.fget
    f = s["func"]
    if asyncio.iscoroutinefunction(f):
        async def wrapper(*a, **k):
            _MODE.append("summary")
            try:
                return await f(*a, **k)
            finally:
                _MODE.pop()
    else:
        def wrapper(*a, **k):
            _MODE.append("summary")
            try:
                return f(*a, **k)
            finally:
                _MODE.pop()
    wrapper.__wrapped_target__ = orig
    _ORIG[(owner, attr)] = raw
    import sys
    import types
    if isinstance(owner, types.ModuleType):
        # names imported with `from module import f` are separate bindings: patch them too
        for mname, m in list(sys.modules.items()):
            if m is None or not mname.startswith("geckolib") or m is owner:
                continue
            for k, v in list(vars(m).items()):
                if v is raw:
                    _ORIG[(m, k)] = raw
                    setattr(m, k, wrapper)
    if kind == "static":
        setattr(owner, attr, staticmethod(wrapper))
    elif kind == "property":
        setattr(owner, attr, property(wrapper, raw.fset))
    else:
        setattr(owner, attr, wrapper)


def uninstall_all():
    for (owner, attr), raw in _ORIG.items():
        setattr(owner, attr, raw)
    _ORIG.clear()


def known_finding(fid, cond):
    return bool(cond)


class u8(int):
    pass


class u16(int):
    pass


class u32(int):
    pass


def sym_list(n, f, key=None):
    return [f(j) for j in range(n)]


def set_clock(t):
    CLOCK[0] = float(t)


def fresh_predicate(name):
    v = _fresh(name, None)
    table = v.get("__pred__", []) if isinstance(v, dict) else []
    return lambda j: bool(table[j]) if 0 <= j < len(table) else False


def suspension_point(what="await"):
    EVENTS.append(("suspend", what))
    if _SUSPEND_HOOK[0] is not None:
        _SUSPEND_HOOK[0](what)


def enable_guarded_collections():
    pass


def pick(values, idx):
    return values[idx]


def members(xs):
    return [(True, v) for v in xs]


def exclude_case_unless(cond):
    if not cond:
        raise PreconditionFailed()


def exact_rational_floats(on=True):
    pass
