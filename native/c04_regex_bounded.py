"""BOUNDED stand-in for GeckoPacketProtocolHandler._extract_packet_parts (re.search is
outside the verifier): exhaustive over token strings, real function, native."""
import itertools
import json
import sys

from geckolib.driver.protocol.packet import GeckoPacketProtocolHandler

DELIMS = [b"<PACKT>", b"</PACKT>", b"<SRCCN>", b"</SRCCN>", b"<DESCN>", b"</DESCN>", b"<DATAS>", b"</DATAS>"]
TOKENS = DELIMS + [b"\n", b"x", b"STATV"]
IDS = [b"", b"x", b"IOSx", b"SPAx\nx", b"x:x", b"a<b"]


def main(bound):
    h = GeckoPacketProtocolHandler()
    n = 0
    bad = []
    for k in range(bound + 1):
        for toks in itertools.product(TOKENS, repeat=k):
            body = b"".join(toks)
            for src in IDS:
                for dst in IDS[:3]:
                    n += 1
                    inner = b"<SRCCN>" + src + b"</SRCCN><DESCN>" + dst + b"</DESCN><DATAS>" + body + b"</DATAS>"
                    got = h._extract_packet_parts(inner)
                    if tuple(got) != (src, dst, body):
                        if len(bad) < 5:
                            bad.append({"src": src.decode("latin1"), "dst": dst.decode("latin1"), "body": body.decode("latin1"),
                                        "got": [None if g is None else g.decode("latin1") for g in got]})
                        else:
                            print(json.dumps({"cases": n, "bad": bad, "complete": False}))
                            return
    print(json.dumps({"cases": n, "bad": bad, "complete": True}))


if __name__ == "__main__":
    main(int(sys.argv[1]) if len(sys.argv) > 1 else 3)
