"""Replay a counter-model natively: run the same harness on the real geckolib code
(working tree) under the repository's own interpreter with the solver's values."""
import asyncio
import importlib
import inspect
import json
import sys
import traceback

import verif_api as api


def main():
    doc = json.load(open(sys.argv[1]))
    api.MODEL.clear()
    api.MODEL.update(doc.get("model") or {})
    api.install_ghost_clock()
    mod = importlib.import_module(doc["sidecar"])
    for sc in doc.get("sidecars", []):
        importlib.import_module(sc)
    h = api.HARNESSES[doc["harness"]]
    for s in doc.get("uses", []):
        api.install_summary(s)
    f = h["func"]
    args = []
    plist = list(inspect.signature(f).parameters.items())
    if doc.get("cases"):
        import os
        from pyvc import tables
        args.append(getattr(tables, doc["cases"])(os.environ.get("PYVC_REPO", "/repo"))[doc["case"]])
        plist = plist[1:]
    for pname, p in plist:
        ann = p.annotation if isinstance(p.annotation, str) else getattr(p.annotation, "__name__", str(p.annotation))
        if ann == "int" or (ann.startswith("u") and ann[1:].isdigit()):
            args.append(api.fresh_int(pname))
        elif ann == "bool":
            args.append(api.fresh_bool(pname))
        elif ann == "bytes":
            args.append(api.fresh_bytes(pname))
        elif ann == "float":
            args.append(api.fresh_float(pname))
        else:
            args.append(None)
    out = {"outcome": "not-reproduced", "failed": [], "exception": None}
    try:
        r = f(*args)
        if inspect.iscoroutine(r):
            asyncio.run(r)
    except api.PreconditionFailed:
        out["outcome"] = "precondition-not-satisfied-natively"
    except BaseException as e:  # noqa
        out["exception"] = "%s: %s" % (type(e).__name__, e)
        out["traceback"] = traceback.format_exc()[-1500:]
        api.FAILED.append("no-exception")
    finally:
        api.uninstall_all()
    out["failed"] = list(api.FAILED)
    out["evaluated"] = list(api.EVALUATED)
    want = doc.get("obligation_name")
    base = want.split("[known:")[0] if want else want
    if api.FAILED and out["outcome"] != "precondition-not-satisfied-natively":
        if base in api.FAILED or want in api.FAILED:
            out["outcome"] = "confirmed"
        elif base is None:
            out["outcome"] = "other-obligation-failed"
        elif base.startswith(("inv-init:", "inv-step:", "pre@", "side:")):
            # cut-point obligations have no native counterpart: the same inputs making a
            # postcondition of the harness fail on the real code confirm the violation
            out["outcome"] = "confirmed"
            out["confirmed_via"] = list(api.FAILED)
        else:
            out["outcome"] = "other-obligation-failed"
    out["inputs"] = {k: (v if not isinstance(v, bytes) else v.hex()) for k, v in zip(inspect.signature(f).parameters, args) if not isinstance(v, dict)}
    print("REPLAY-RESULT " + json.dumps(out, default=str))


if __name__ == "__main__":
    main()
