"""C19, native ground / bounded checks (regular expressions, logging.Formatter and file iteration are outside the verifier).

A. GROUND (complete over a finite, closed set): every *.snapshot file shipped under tests/snapshots goes through the real
   GeckoSnapshot.parse_log_file, must yield a 1024-byte block with versions that name shipped tables, and the real
   GeckoSimulator.set_snapshot must then hold exactly those bytes with the tables of the snapshot's versions.  All files
   are parsed one after the other IN ONE PROCESS, twice (a second parse of the same file must give the same result).
B. BOUNDED stand-in (never counted as proved): writer -> parser.  The real GeckoShell.do_snapshot writes a snapshot of a
   stub spa through logging with the log-file formatter of GeckoCmd.do_logfile; parse_log_file must give back the bytes,
   pack, firmware and config/log versions.  Cases: every shipped (platform, config, log) pair x a fixed set of blocks
   (zeros, 0..255 ramp, all-0xff, three seeded random blocks), names incl. brackets and quotes.
"""
import glob
import json
import logging
import os
import random
import sys
import tempfile

from geckolib.utils.snapshot import GeckoSnapshot
from geckolib.utils.simulator import GeckoSimulator
from geckolib.utils.shell import GeckoShell
from geckolib.driver.spastruct import GeckoStructure
import geckolib.utils.shell as shell_mod


def load_in_simulator(snap):
    sim = GeckoSimulator.__new__(GeckoSimulator)
    sim.structure = GeckoStructure(None)
    sim.set_snapshot(snap)
    return sim


def part_a(repo):
    files = sorted(glob.glob(os.path.join(repo, "tests", "snapshots", "*.snapshot")))
    bad = []
    first = {}
    for rnd in (1, 2):
        for f in files:
            name = os.path.basename(f)
            try:
                snaps = GeckoSnapshot.parse_log_file(f)
                if len(snaps) < 1:
                    bad.append({"file": name, "what": "no snapshot parsed"})
                    continue
                for i, s in enumerate(snaps):
                    if len(s.bytes) != 1024:
                        bad.append({"file": name, "what": "snapshot %d: %d bytes, not 1024 (round %d)" % (i, len(s.bytes), rnd)})
                        continue
                    key = (name, i)
                    sig = (s.bytes, s.packtype, s.config_version, s.log_version)
                    if rnd == 1:
                        first[key] = sig
                    elif first.get(key) != sig:
                        bad.append({"file": name, "what": "snapshot %d parses differently the second time in the same process" % i})
                    sim = load_in_simulator(s)
                    if sim.structure.status_block != s.bytes:
                        bad.append({"file": name, "what": "simulator block differs from the parsed bytes"})
                    if sim.config_class.version != s.config_version or sim.log_class.version != s.log_version:
                        bad.append({"file": name, "what": "simulator tables %s/%s for snapshot versions %s/%s"
                                    % (sim.config_class.version, sim.log_class.version, s.config_version, s.log_version)})
                    if sim.pack_class.name.lower() != s.packtype.lower():
                        bad.append({"file": name, "what": "simulator pack %s for snapshot %s" % (sim.pack_class.name, s.packtype)})
            except Exception as e:      # noqa
                bad.append({"file": name, "what": "%s: %s (round %d)" % (type(e).__name__, e, rnd)})
    return {"files": len(files), "bad": bad[:8], "n_bad": len(bad)}


class SpaStub:
    pass


class FacadeStub:
    pass


def shipped_pairs(repo):
    packs = os.path.join(repo, "src", "geckolib", "driver", "packs")
    plats = {}
    for f in os.listdir(packs):
        if not f.endswith(".py") or f == "__init__.py":
            continue
        stem = f[:-3]
        for kind in ("-cfg-", "-log-"):
            if kind in stem:
                p, v = stem.rsplit(kind, 1)
                plats.setdefault(p, {"cfg": [], "log": []})[kind.strip("-")].append(int(v))
    out = []
    for p in sorted(plats):
        cfg, log = sorted(plats[p]["cfg"]), sorted(plats[p]["log"])
        if not cfg or not log:
            continue
        for i, cv in enumerate(cfg):
            out.append((p, cv, log[(i + 1) % len(log)]))       # deliberately off the diagonal: config != log where possible
        for i, lv in enumerate(log):
            out.append((p, cfg[(i + 2) % len(cfg)], lv))
    return out


def part_b(repo):
    rng = random.Random(20201208)
    blocks = [bytes(1024), bytes(range(256)) * 4, b"\xff" * 1024] + [bytes(rng.randrange(256) for _ in range(1024)) for _ in range(3)]
    names = ["Heating", "Pump 1, 2 and blower running", "it's \"quoted\"", "odd [name] (x)"]
    bad = []
    n = 0
    tmp = tempfile.mkdtemp(prefix="c19w")
    path = os.path.join(tmp, "shell.log")
    for k, (plat, cv, lv) in enumerate(shipped_pairs(repo)):
        block = blocks[k % len(blocks)]
        name = names[k % len(names)]
        spa = SpaStub()
        spa.revision = "19.00"
        spa.intouch_version_en = "%d v%d.%d" % (70 + k % 30, 10 + k % 7, k % 3)
        spa.intouch_version_co = "%d v%d.%d" % (40 + k % 50, 1 + k % 11, k % 2)
        spa.pack = plat
        spa.version = "%d v%d.%d" % (100 + k, 3 + k % 5, k % 4)
        spa.config_number = 5 + k % 9
        spa.config_version = cv
        spa.log_version = lv
        spa.pack_type = 3 + k % 11
        spa.struct = GeckoStructure(None)
        spa.struct.set_status_block(block)
        sh = GeckoShell.__new__(GeckoShell)
        sh.facade = FacadeStub()
        sh.facade.spa = spa
        if os.path.exists(path):
            os.remove(path)
        handler = logging.FileHandler(path)
        handler.setLevel(logging.DEBUG)
        handler.setFormatter(logging.Formatter("%(asctime)s %(name)s %(levelname)s %(message)s"))   # GeckoCmd.do_logfile
        shell_mod.logger.addHandler(handler)
        old = shell_mod.logger.level
        shell_mod.logger.setLevel(logging.DEBUG)
        try:
            sh.do_snapshot(name)
            shell_mod.logger.debug("end of snapshot")
        finally:
            shell_mod.logger.removeHandler(handler)
            shell_mod.logger.setLevel(old)
            handler.close()
        n += 1
        try:
            snaps = GeckoSnapshot.parse_log_file(path)
            s = snaps[0]
            en = tuple(int(x) for x in spa.intouch_version_en.replace(" v", ".").split("."))
            co = tuple(int(x) for x in spa.intouch_version_co.replace(" v", ".").split("."))
            got = (len(snaps), s.bytes, s.packtype, s.config_version, s.log_version, s.intouch_EN, s.intouch_CO, s.name,
                   s.spapack)
            want = (1, block, plat, cv, lv, en, co, name, "%s %s" % (plat, spa.version))
            labels = ("count", "bytes", "pack", "config version", "log version", "firmware EN", "firmware CO", "name", "spa pack")
            for lab, g, w in zip(labels, got, want):
                if g != w:
                    bad.append({"case": "%s cfg %d log %d name %r" % (plat, cv, lv, name), "field": lab,
                                "got": repr(g)[:80], "want": repr(w)[:80]})
        except Exception as e:      # noqa
            bad.append({"case": "%s cfg %d log %d name %r" % (plat, cv, lv, name), "field": "exception", "got": "%s: %s" % (type(e).__name__, e)})
    try:
        os.remove(path)
        os.rmdir(tmp)
    except OSError:
        pass
    return {"cases": n, "bad": bad[:8], "n_bad": len(bad)}


if __name__ == "__main__":
    repo = sys.argv[1]
    logging.disable(logging.NOTSET)
    print(json.dumps({"A": part_a(repo), "B": part_b(repo)}))
