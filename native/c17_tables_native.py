"""C17, GROUND (native): after a switch the live configuration object carries exactly the published table -- read through
CPython, so that whatever the class machinery (dataclass fields, descriptors, inheritance) does to attribute lookup is
included.  Every switch history of length <= 3 over {active, idle} is run with a sleeper in place."""
import asyncio
import itertools
import json

import geckolib.config as config

ACTIVE = {"DISCOVERY_INITIAL_TIMEOUT_IN_SECONDS": 4, "DISCOVERY_TIMEOUT_IN_SECONDS": 10, "TASK_TIDY_FREQUENCY_IN_SECONDS": 5,
          "PING_FREQUENCY_IN_SECONDS": 2, "PING_DEVICE_NOT_RESPONDING_TIMEOUT_IN_SECONDS": 10, "FACADE_UPDATE_FREQUENCY_IN_SECONDS": 30,
          "SPA_PACK_REFRESH_FREQUENCY_IN_SECONDS": 30, "PROTOCOL_TIMEOUT_IN_SECONDS": 4, "PROTOCOL_RETRY_COUNT": 10,
          "PAUSE_BETWEEN_RETRIES_IN_SECONDS": 2}
IDLE = dict(ACTIVE, TASK_TIDY_FREQUENCY_IN_SECONDS=60, PING_FREQUENCY_IN_SECONDS=60, PING_DEVICE_NOT_RESPONDING_TIMEOUT_IN_SECONDS=120,
            FACADE_UPDATE_FREQUENCY_IN_SECONDS=120, SPA_PACK_REFRESH_FREQUENCY_IN_SECONDS=120)


async def main():
    bad = []
    n = 0
    start = {k: getattr(config.GeckoConfig, k) for k in IDLE}
    if start != IDLE:
        bad.append({"history": [], "got": {k: v for k, v in start.items() if IDLE[k] != v}})
    for length in (1, 2, 3):
        for hist in itertools.product((True, False), repeat=length):
            sleeper = asyncio.ensure_future(config.config_sleep(3600))
            await asyncio.sleep(0)
            for mode in hist:
                config.set_config_mode(mode)
                n += 1
                want = ACTIVE if mode else IDLE
                got = {k: getattr(config.GeckoConfig, k) for k in want}
                if got != want and len(bad) < 5:
                    bad.append({"history": list(hist), "mode": mode, "got": {k: v for k, v in got.items() if want[k] != v}})
            await asyncio.wait([sleeper], timeout=1)
            if not sleeper.done():
                bad.append({"history": list(hist), "what": "sleeper not woken by the switch"})
                sleeper.cancel()
    print(json.dumps({"switches": n, "bad": bad[:5], "n_bad": len(bad)}))


asyncio.run(main())
