"""BOUNDED stand-in for the traffic-log path of GeckoSnapshot.parse (regular expressions are outside the verifier):
every 1-byte payload and every 2-byte payload with a tricky first byte, through the real parse(), native."""
import json
import sys

from geckolib.utils.snapshot import GeckoSnapshot
from geckolib.driver.protocol.statusblock import GeckoStatusBlockProtocolHandler

TRICKY = [0x00, 0x0a, 0x0d, 0x20, 0x22, 0x27, 0x5b, 0x5c, 0x5d, 0x2c, 0x30, 0x78, 0x41, 0x7f, 0x80, 0xff, 0x3c, 0x3e, 0x2f]


def line_for(payload):
    h = GeckoStatusBlockProtocolHandler.response(0, 0, payload, parms=("10.0.0.9", 10022, b"SPAid", b"IOSclient"))
    return "2020-12-15 16:50:32,100 geckolib.driver.udp_socket DEBUG Received %s from %s\n" % (h.send_bytes, ("10.0.0.9", 10022))


def classify(payload):
    if 0x22 in payload and 0x27 in payload:
        return "C19:segment-with-both-quote-characters"
    import re
    if re.search(rb"\[[0-9A-Fa-fx\\' ,]*\]", payload):
        return "C19:traffic-payload-spelling-a-hex-list"
    return None


def main(full):
    firsts = list(range(256)) if full else TRICKY
    payloads = [bytes([a]) for a in range(256)] + [bytes([a, b]) for a in firsts for b in range(256)]
    bad, known = [], {}
    for p in payloads:
        s = GeckoSnapshot()
        try:
            s.parse(line_for(p))
            ok = s.bytes == p
            err = None
        except Exception as e:      # noqa
            ok = False
            err = "%s: %s" % (type(e).__name__, e)
        if not ok:
            k = classify(p)
            if k:
                known[k] = known.get(k, 0) + 1
            elif len(bad) < 8:
                bad.append({"payload": p.hex(), "got": s.bytes.hex(), "error": err})
            else:
                bad.append(None)
    print(json.dumps({"cases": len(payloads), "bad": [b for b in bad if b][:8], "n_bad": len(bad), "known": known}))


if __name__ == "__main__":
    main(len(sys.argv) > 1 and sys.argv[1] == "full")
