"""C14, GROUND (complete enumeration, native): the presentation clause over its whole finite domain.
Every stored word 0..65535 x both unit settings is read through the REAL GeckoTempStructAccessor (real unit item,
real structure) and must present exactly raw/18 (C) or (raw+320)/10 (F) in IEEE double arithmetic -- whatever the
implementation does internally (tables, rounding calls, ...).  Writing the presented value back must emit the same word.
"""
import json
import struct

from geckolib.driver.spastruct import GeckoStructure
from geckolib.driver.accessor import GeckoTempStructAccessor, GeckoEnumStructAccessor


class Rec:
    calls = []


def on_set(pos, length, value):
    Rec.calls.append((pos, length, value))


def main():
    s = GeckoStructure(on_set)
    units = GeckoEnumStructAccessor(s, "TempUnits", 0, None, ["F", "C"], None, None, "ALL")
    t = GeckoTempStructAccessor(s, "SetpointG", 2, "ALL")
    s.accessors = {"TempUnits": units, "SetpointG": t}
    bad = []
    n = 0
    for u, label in ((0, "F"), (1, "C")):
        for raw in range(65536):
            s.set_status_block(bytes([u, 0]) + struct.pack(">H", raw) + bytes(1020))
            n += 1
            got = t.value
            want = raw / 18.0 if label == "C" else (raw + 320) / 10.0
            if not (isinstance(got, float) and got == want):
                if len(bad) < 5:
                    bad.append({"unit": label, "raw": raw, "presented": repr(got), "statement": repr(want)})
                continue
            Rec.calls = []
            t.value = got
            if Rec.calls != [(2, 2, raw)]:
                if len(bad) < 5:
                    bad.append({"unit": label, "raw": raw, "written_back": repr(Rec.calls)})
    print(json.dumps({"cases": n, "bad": bad, "n_bad": len(bad)}))


if __name__ == "__main__":
    main()
