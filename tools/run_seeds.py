#!/usr/bin/env python3
"""Apply every seeded change to a scratch worktree of /repo's HEAD, run the check of its property on it, record the verdict.
usage: run_seeds.py [seed-dir-name ...]   (writes seeded/<id>/meta.json 'caught_by' and seeded/RESULTS.md)

/repo itself is never touched: each property gets its own worktree under /tmp/wt (removed afterwards) and the check reads
it through PYVC_REPO.  Evidence / replay files are per property, so different properties run in parallel (SEED_JOBS)."""
import json, os, subprocess, sys, time
from concurrent.futures import ThreadPoolExecutor

V = os.path.dirname(os.path.dirname(os.path.abspath(__file__)))
names = sys.argv[1:] or sorted(d for d in os.listdir(os.path.join(V, "seeded")) if os.path.isdir(os.path.join(V, "seeded", d)))
JOBS = int(os.environ.get("SEED_JOBS", "5"))


def sh(cmd, **kw):
    return subprocess.run(cmd, shell=True, capture_output=True, text=True, **kw)


HEAD = sh("git -C /repo rev-parse --short HEAD").stdout.strip()


def run_property(prop, seeds):
    wt = "/tmp/wt/seedrun-%s" % prop
    sh("git -C /repo worktree remove --force %s" % wt)
    r = sh("git -C /repo worktree add -q --detach %s HEAD" % wt)
    assert r.returncode == 0, r.stderr
    try:
        for n in seeds:
            d = os.path.join(V, "seeded", n)
            meta = json.load(open(os.path.join(d, "meta.json")))
            sh("git -C %s checkout -- . && git -C %s clean -fdq" % (wt, wt))
            a = sh("git -C %s apply %s/patch.diff" % (wt, d))
            if a.returncode != 0:
                meta["caught_by"] = {"verdict": "PATCH DOES NOT APPLY", "repo_head": HEAD}
                json.dump(meta, open(os.path.join(d, "meta.json"), "w"), indent=1)
                print(n, "patch does not apply", flush=True)
                continue
            t0 = time.time()
            try:
                p = subprocess.Popen("cd %s && PYVC_REPO=%s exec ./check %s --tier quick" % (V, wt, prop), shell=True,
                                     stdout=subprocess.PIPE, stderr=subprocess.PIPE, text=True, start_new_session=True)
                try:
                    out, _err = p.communicate(timeout=1200)
                    code = p.returncode
                except subprocess.TimeoutExpired:
                    import signal
                    os.killpg(p.pid, signal.SIGKILL)
                    p.communicate()
                    out, code = "", 2
            except OSError:
                out, code = "", 3
            viol = [l for l in out.splitlines() if l.startswith("VIOLATION")]
            obl = [l.strip().split("failed obligation: ")[1] for l in out.splitlines() if "failed obligation:" in l]
            fallback = [l for l in out.splitlines() if l.startswith("BOUNDED-FALL-BACK")]
            confirmed = any(not v.endswith("no-failing-input-found") for v in viol)
            harmless = meta.get("kind", "").startswith("harmless")
            if harmless:
                verdict = ("quiet (correct)" + (", bounded fall-back for an edited loop" if fallback else "")) if code == 0 else (
                    "FALSE ALARM" if code == 1 else "UNDECIDED(exit %d)" % code)
            else:
                verdict = "caught" if code == 1 and viol else ("UNDECIDED(exit %d)" % code if code in (2, 3) else "MISSED")
            meta["caught_by"] = {"check": "./check %s --tier quick" % prop, "exit": code, "verdict": verdict,
                                 "failed_obligations": obl[:6], "counterexample_replayed_natively": confirmed,
                                 "seconds": round(time.time() - t0, 1), "repo_head": HEAD}
            json.dump(meta, open(os.path.join(d, "meta.json"), "w"), indent=1)
            print(n, verdict, obl[:1], "native-confirmed" if confirmed else "", flush=True)
    finally:
        sh("git -C /repo worktree remove --force %s" % wt)
        sh("rm -rf /tmp/pyvc-out/%s" % wt.replace("/", "_"))


by_prop = {}
for n in names:
    meta = json.load(open(os.path.join(V, "seeded", n, "meta.json")))
    by_prop.setdefault(meta["property"], []).append(n)
with ThreadPoolExecutor(JOBS) as tp:
    list(tp.map(lambda kv: run_property(kv[0], kv[1]), sorted(by_prop.items(), key=lambda kv: -len(kv[1]))))
sh("git -C /repo worktree prune")

# rebuild the whole table from every meta.json (so a partial run keeps the other rows)
allrows = []
for n in sorted(d for d in os.listdir(os.path.join(V, "seeded")) if os.path.isdir(os.path.join(V, "seeded", d))):
    meta = json.load(open(os.path.join(V, "seeded", n, "meta.json")))
    cb = meta.get("caught_by") or {}
    allrows.append((n, meta["property"], "harmless refactoring" if meta.get("kind", "").startswith("harmless") else "defect",
                    cb.get("verdict", "not run"), (cb.get("failed_obligations") or [""])[0], cb.get("counterexample_replayed_natively", False)))
with open(os.path.join(V, "seeded", "RESULTS.md"), "w") as f:
    f.write("| seeded change | property | kind | verdict | first failed obligation | counterexample replayed on the real code |\n|---|---|---|---|---|---|\n")
    for r in allrows:
        f.write("| %s | %s | %s | %s | `%s` | %s |\n" % (r[0], r[1], r[2], r[3], r[4], "yes" if r[5] else ("no" if r[2] == "defect" else "-")))
    d = [r for r in allrows if r[2] == "defect"]
    h = [r for r in allrows if r[2] != "defect"]
    f.write("\n%d defects: %d caught, %d missed, %d undecided.  %d harmless refactorings: %d quiet (%d of them through the bounded fall-back for an edited loop), %d false alarm, %d undecided.\n" % (
        len(d), len([r for r in d if r[3] == "caught"]), len([r for r in d if r[3] == "MISSED"]), len([r for r in d if r[3].startswith("UNDECIDED")]),
        len(h), len([r for r in h if r[3].startswith("quiet")]), len([r for r in h if "fall-back" in r[3]]),
        len([r for r in h if r[3] == "FALSE ALARM"]), len([r for r in h if r[3].startswith("UNDECIDED")])))
