#!/usr/bin/env python3
"""Apply every seeded change to /repo, run the check of its property, record the verdict, undo.
usage: run_seeds.py [seed-dir-name ...]   (writes seeded/<id>/meta.json 'caught_by' and seeded/RESULTS.md)"""
import json, os, re, subprocess, sys, time
V = os.path.dirname(os.path.dirname(os.path.abspath(__file__)))
names = sys.argv[1:] or sorted(d for d in os.listdir(os.path.join(V, "seeded")) if os.path.isdir(os.path.join(V, "seeded", d)))
rows = []
assert subprocess.run("git -C /repo status --porcelain", shell=True, capture_output=True, text=True).stdout.strip() == "", "/repo not clean"
for n in names:
    d = os.path.join(V, "seeded", n)
    meta = json.load(open(os.path.join(d, "meta.json")))
    prop = meta["property"]
    a = subprocess.run("git -C /repo apply %s/patch.diff" % d, shell=True, capture_output=True, text=True)
    if a.returncode != 0:
        rows.append((n, prop, "PATCH DOES NOT APPLY", "", 0)); print(n, "patch does not apply"); continue
    t0 = time.time()
    try:
        try:
            r = subprocess.run("cd %s && ./check %s --tier quick" % (V, prop), shell=True, capture_output=True, text=True, timeout=600)
            out = r.stdout
            code = r.returncode
        except subprocess.TimeoutExpired:
            out = ""
            code = 2
            subprocess.run("ps aux | grep 'pyvc[.]cli' | awk '{print $2}' | xargs -r kill", shell=True)
    finally:
        subprocess.run("git -C /repo checkout -- .", shell=True)
    viol = [l for l in out.splitlines() if l.startswith("VIOLATION")]
    obl = [l.strip().split("failed obligation: ")[1] for l in out.splitlines() if "failed obligation:" in l]
    confirmed = any(not v.endswith("no-failing-input-found") for v in viol)
    harmless = meta.get("kind", "").startswith("harmless")
    if harmless:
        verdict = "quiet (correct)" if code == 0 else ("FALSE ALARM" if code == 1 else "UNDECIDED(exit %d)" % code)
    else:
        verdict = "caught" if code == 1 and viol else ("UNDECIDED(exit %d)" % code if code in (2, 3) else "MISSED")
    meta["caught_by"] = {"check": "./check %s --tier quick" % prop, "exit": code, "verdict": verdict,
                         "failed_obligations": obl[:6], "counterexample_replayed_natively": confirmed,
                         "seconds": round(time.time() - t0, 1), "repo_head": subprocess.run("git -C /repo rev-parse --short HEAD", shell=True, capture_output=True, text=True).stdout.strip()}
    json.dump(meta, open(os.path.join(d, "meta.json"), "w"), indent=1)
    rows.append((n, prop, verdict, (obl[0] if obl else ""), confirmed))
    print(n, verdict, obl[:1], "native-confirmed" if confirmed else "", flush=True)
# rebuild the whole table from every meta.json (so a partial run keeps the other rows)
allrows = []
for n in sorted(d for d in os.listdir(os.path.join(V, "seeded")) if os.path.isdir(os.path.join(V, "seeded", d))):
    meta = json.load(open(os.path.join(V, "seeded", n, "meta.json")))
    cb = meta.get("caught_by") or {}
    allrows.append((n, meta["property"], "harmless refactoring" if meta.get("kind", "").startswith("harmless") else "defect",
                    cb.get("verdict", "not run"), (cb.get("failed_obligations") or [""])[0], cb.get("counterexample_replayed_natively", False)))
with open(os.path.join(V, "seeded", "RESULTS.md"), "w") as f:
    f.write("| seeded change | property | kind | verdict | first failed obligation | counterexample replayed on the real code |\n|---|---|---|---|---|---|\n")
    for r in allrows:
        f.write("| %s | %s | %s | %s | `%s` | %s |\n" % (r[0], r[1], r[2], r[3], r[4], "yes" if r[5] else ("no" if r[2] == "defect" else "-")))
    d = [r for r in allrows if r[2] == "defect"]
    h = [r for r in allrows if r[2] != "defect"]
    f.write("\n%d defects: %d caught, %d missed, %d undecided.  %d harmless refactorings: %d quiet, %d false alarm, %d undecided (exit 2/3: a loop under contract was moved or renamed).\n" % (
        len(d), len([r for r in d if r[3] == "caught"]), len([r for r in d if r[3] == "MISSED"]), len([r for r in d if r[3].startswith("UNDECIDED")]),
        len(h), len([r for r in h if r[3].startswith("quiet")]), len([r for r in h if r[3] == "FALSE ALARM"]), len([r for r in h if r[3].startswith("UNDECIDED")])))
