#!/usr/bin/env python3
"""Confirm sub-agent seeded changes in a scratch worktree and file them under /verif/seeded.
usage: confirm_seeds.py /tmp/seed [IDs...]"""
import json, os, shutil, subprocess, sys, time
root = sys.argv[1]
ids = sys.argv[2:] or sorted(d for d in os.listdir(root) if os.path.isdir(os.path.join(root, d)))
WT = "/tmp/wt/confirm"
def sh(cmd, **kw):
    return subprocess.run(cmd, shell=True, capture_output=True, text=True, **kw)
if not os.path.isdir(WT):
    r = sh("git -C /repo worktree add -q --detach %s HEAD" % WT); assert r.returncode == 0, r.stderr
for pid in ids:
    for mk in sorted(os.listdir(os.path.join(root, pid))):
        d = os.path.join(root, pid, mk)
        patch = os.path.join(d, "patch.diff")
        demo = os.path.join(d, "demo.py")
        if not os.path.isdir(d) or not os.path.exists(patch):
            continue
        if mk.startswith("r"):
            # harmless refactoring: must apply and keep the suite green
            sh("git -C %s checkout -- . && git -C %s clean -fdq" % (WT, WT))
            a = sh("git -C %s apply %s" % (WT, patch))
            t = sh("cd %s && /venv/bin/python -m pytest -q -p no:cacheprovider --timeout=900 -x 2>&1 | tail -3" % WT)
            # every round-2 demo of this property must still pass on the refactored code
            demos_ok = True
            for other in sorted(os.listdir(os.path.join(root, pid))):
                od = os.path.join(root, pid, other, "demo.py")
                if os.path.exists(od):
                    demos_ok = demos_ok and sh("GECKO_SRC=%s/src timeout 120 /venv/bin/python %s" % (WT, od)).returncode == 0
            sh("git -C %s checkout -- . && git -C %s clean -fdq" % (WT, WT))
            ok = a.returncode == 0 and " passed" in t.stdout and not __import__("re").search(r"\b\d+ failed", t.stdout) and demos_ok
            print(pid, mk, "apply", a.returncode, "tests:", t.stdout.strip().splitlines()[-1] if t.stdout.strip() else "?", "demos-still-pass", demos_ok, "=>", "OK" if ok else "REJECT", flush=True)
            if ok:
                dest = "/verif/seeded/%s-%s" % (pid, mk)
                os.makedirs(dest, exist_ok=True)
                shutil.copy(patch, dest)
                notes = open(os.path.join(d, "notes.md")).read() if os.path.exists(os.path.join(d, "notes.md")) else ""
                open(os.path.join(dest, "notes.md"), "w").write(notes)
                json.dump({"property": pid, "mutation": mk, "kind": "harmless-refactoring (must NOT raise an alarm)",
                           "source": "independent sub-agent given only the property record and a scratch worktree",
                           "why_behaviour_preserving": notes[:1500],
                           "confirmed": {"date": time.strftime("%Y-%m-%d"), "ran": ["git apply patch.diff", "pytest -q -x: " + t.stdout.strip().splitlines()[-1], "all defect demos of this property still pass: %s" % demos_ok]},
                           "caught_by": None}, open(os.path.join(dest, "meta.json"), "w"), indent=1)
            continue
        if not os.path.exists(demo):
            continue
        sh("git -C %s checkout -- . && git -C %s clean -fdq" % (WT, WT))
        env = "GECKO_SRC=%s/src" % WT
        r0 = sh("%s timeout 120 /venv/bin/python %s" % (env, demo))
        a = sh("git -C %s apply %s" % (WT, patch))
        t = sh("cd %s && /venv/bin/python -m pytest -q -p no:cacheprovider --timeout=900 -x 2>&1 | tail -3" % WT)
        r1 = sh("%s timeout 120 /venv/bin/python %s" % (env, demo))
        sh("git -C %s checkout -- . && git -C %s clean -fdq" % (WT, WT))
        ok = (a.returncode == 0 and r0.returncode == 0 and r1.returncode != 0 and " passed" in t.stdout and not __import__("re").search(r"\b\d+ failed", t.stdout))
        print(pid, mk, "apply", a.returncode, "demo-clean", r0.returncode, "demo-mut", r1.returncode, "tests:", t.stdout.strip().splitlines()[-1] if t.stdout.strip() else "?", "=>", "OK" if ok else "REJECT", flush=True)
        if ok:
            dest = "/verif/seeded/%s-%s" % (pid, mk)
            os.makedirs(dest, exist_ok=True)
            shutil.copy(patch, dest); shutil.copy(demo, dest)
            notes = open(os.path.join(d, "notes.md")).read() if os.path.exists(os.path.join(d, "notes.md")) else ""
            open(os.path.join(dest, "notes.md"), "w").write(notes)
            meta = {"property": pid, "mutation": mk, "source": "independent sub-agent given only the property record and a scratch worktree",
                    "needs_to_manifest": notes[:1500],
                    "confirmed": {"date": time.strftime("%Y-%m-%d"), "worktree": WT,
                                  "ran": ["git apply patch.diff", "pytest -q -x (all passed: %s)" % t.stdout.strip().splitlines()[-1],
                                          "demo.py with patch: exit %d" % r1.returncode, "demo.py without patch: exit %d" % r0.returncode]},
                    "caught_by": None}
            json.dump(meta, open(os.path.join(dest, "meta.json"), "w"), indent=1)
sh("git -C /repo worktree remove --force %s" % WT)
