#!/bin/sh
# run every registered quick check, print one line each
cd "$(dirname "$0")/.." || exit 3
tier=${1:-quick}
for p in $(python3 -c "import json;print(' '.join(c['property_id'] for c in json.load(open('MANIFEST.json'))['checks']))"); do
  ./check $p --tier $tier | grep -v "^KNOWN-FINDING" | tail -1
done
python3-vt - <<'PY'
import json,jsonschema,glob
sch=json.load(open('/root/.vp/EVIDENCE.schema.json'))
for f in sorted(glob.glob('/verif/evidence/*.json')):
    d=json.load(open(f)); jsonschema.validate(d,sch)
    c=d['coverage']; assert c['obligations']==c['discharged'], (f,c['obligations'],c['discharged'])
print('evidence files valid')
PY
