"""C18 -- module names agree with the config-file naming a spa reports (shared with C04): the FILES message of
every shipped platform x config x log version, and the short name a MrSteam spa reports, decode to names of
table modules that exist."""
from verif_api import *
from contracts import c04_wire

harness(prop="C18", cases="c04_platforms", target="geckolib.driver.protocol.configfile:GeckoConfigFileProtocolHandler.handle",
        name="reported_config_file_names_select_existing_modules")(c04_wire.configfile_response_shipped)
