"""C18 -- module names agree with the config-file naming a spa reports (shared with C04): the FILES message of
every shipped platform x config x log version, and the short name a MrSteam spa reports, decode to names of
table modules that exist."""
from verif_api import *
from contracts import c04_wire

harness(prop="C18", cases="c04_platforms", target="geckolib.driver.protocol.configfile:GeckoConfigFileProtocolHandler.handle",
        name="reported_config_file_names_select_existing_modules")(c04_wire.configfile_response_shipped)


# ----------------------------------------------------- module lookup from the FILES reply
# The REAL GeckoAsyncSpa._connect is executed up to (and including) the table lookup; the engine
# and the block transfer are stand-ins (C06 / C01).  All shipped platform x version names are
# looked up one after the other IN ONE PROCESS -- connections to different spas follow each
# other in a long-running client -- and each must select exactly the module its name spells.
import asyncio
import importlib

from contracts import c10_leaks
from geckolib.async_spa import GeckoAsyncSpa
from geckolib.async_tasks import AsyncTasks
from geckolib.spa_events import GeckoSpaEvent as E


class Reported:
    en_build = 1
    en_major = 2
    en_minor = 3
    co_build = 4
    co_major = 5
    co_minor = 6
    channel = 5
    signal_strength = 60
    config_version = 0
    log_version = 0
    plateform_key = ""


class Seen:
    events = []


async def record(event, **kwargs):
    Seen.events.append((event, kwargs))


@summary("geckolib.driver.async_udp_protocol:GeckoAsyncUdpProtocol.get", name="spa_reports",
         note="engine stand-in (C06): the reply carries what the harness says the spa reports")
async def spa_reports(self, create_func, destination=None, retry_count=10):
    return Reported()


@summary("geckolib.driver.async_spastruct:GeckoAsyncStructure.get", name="transfer_not_attempted",
         note="transfer stand-in (C01): fails, so the handshake ends right after the table lookup")
async def transfer_not_attempted(self, protocol, create_func, retry_count=10):
    return False


async def connect_reporting(name, cv, lv):
    Reported.plateform_key = name
    Reported.config_version = cv
    Reported.log_version = lv
    Seen.events = []
    c10_leaks.arm(-1)
    spa = GeckoAsyncSpa(b"IOSx", c10_leaks.Descr(), AsyncTasks(), record)
    await spa.connect()
    return spa


def reported(event):
    return len([e for e in Seen.events if e[0] is event])


@harness(prop="C18", cases="c18_all_platforms_together", target="geckolib.async_spa:GeckoAsyncSpa._connect",
         uses=["spa_reports", "transfer_not_attempted"], name="handshake_selects_exactly_the_reported_tables", timeout=600)
async def handshake_selects_exactly_the_reported_tables(plats):
    n = 0
    for plat in plats["platforms"]:
        name = plat["name"]
        key = plat["platform"]
        pairs = [(cv, plat["log"][0]) for cv in plat["cfg"]] + [(plat["cfg"][0], lv) for lv in plat["log"]]
        for (cv, lv) in pairs:
            spa = await connect_reporting(name, cv, lv)
            n = n + 1
            ensures("pack-table-is-the-platform's", type(spa.pack_class) is importlib.import_module("geckolib.driver.packs.%s" % key).GeckoPack)
            ensures("config-table-is-the-reported-platform-and-version",
                    type(spa.config_class) is importlib.import_module("geckolib.driver.packs.%s-cfg-%d" % (key, cv)).GeckoConfigStruct)
            ensures("log-table-is-the-reported-platform-and-version",
                    type(spa.log_class) is importlib.import_module("geckolib.driver.packs.%s-log-%d" % (key, lv)).GeckoLogStruct)
            ensures("tables-declare-the-reported-versions", both(spa.config_class.version == cv, spa.log_class.version == lv,
                                                                  spa.config_version == cv, spa.log_version == lv))
            ensures("pack-declares-the-reported-platform", both(spa.pack_class.name.lower() == key, spa.pack_type == spa.pack_class.type))
            ensures("no-lookup-failure-reported", both(reported(E.CONNECTION_CANNOT_FIND_SPA_PACK) == 0,
                                                      reported(E.CONNECTION_CANNOT_FIND_CONFIG_VERSION) == 0,
                                                      reported(E.CONNECTION_CANNOT_FIND_LOG_VERSION) == 0))
            ensures("tables-belong-to-this-connection's-structure",
                    both(spa.config_class.struct is spa.struct, spa.log_class.struct is spa.struct, spa.pack_class.struct is spa.struct))
    ensures("every-shipped-name-was-looked-up", n == plats["lookups"])
    cover("reached-end", n > 100)


@harness(prop="C18", target="geckolib.async_spa:GeckoAsyncSpa._connect", uses=["spa_reports", "transfer_not_attempted"],
         name="unknown_names_are_reported_not_guessed")
async def unknown_names_are_reported_not_guessed(which: int):
    """a platform / version that is not shipped: the matching lookup failure is reported, the spa stays unconnected,
    and no table of another platform or version is used instead"""
    requires(both(0 <= which, which <= 2))
    which = concrete_cases(which, 0, 2)
    await connect_reporting("inYT", 53, 53)          # an earlier, successful lookup in the same process
    if which == 0:
        spa = await connect_reporting("inNOPE", 53, 53)
        ensures("missing-platform-reported-once", reported(E.CONNECTION_CANNOT_FIND_SPA_PACK) == 1)
        ensures("no-table-used", both(spa.pack_class is None, spa.config_class is None, spa.log_class is None))
    elif which == 1:
        spa = await connect_reporting("inYT", 999, 53)
        ensures("missing-config-version-reported-once", reported(E.CONNECTION_CANNOT_FIND_CONFIG_VERSION) == 1)
        ensures("no-table-used", both(spa.config_class is None, spa.log_class is None))
    else:
        spa = await connect_reporting("inYT", 53, 999)
        ensures("missing-log-version-reported-once", reported(E.CONNECTION_CANNOT_FIND_LOG_VERSION) == 1)
        ensures("no-table-used", spa.log_class is None)
    ensures("spa-not-connected", both(not spa.is_connected, reported(E.CONNECTION_SPA_COMPLETE) == 0,
                                      reported(E.CONNECTION_INITIAL_DATA_BLOCK_REQUEST) == 0))


# ------------------------------------------------ the blocking client's lookup (spa.py)
import threading

from geckolib.spa import GeckoSpa
from geckolib.driver.spastruct import GeckoStructure
from geckolib.driver.protocol.statusblock import GeckoStatusBlockProtocolHandler


def blocking_spa():
    spa = new(GeckoSpa)
    spa._lock = threading.Lock()
    spa._receive_handlers = []
    spa._send_handlers = []
    spa._sequence_counter_protocol = 0
    spa._sequence_counter_command = 191
    spa.is_in_error = False
    spa.struct = GeckoStructure(None)
    spa.new_pack_class = None
    spa.new_config_class = None
    spa.new_log_class = None
    spa.pack_type = None
    return spa


@harness(prop="C18", cases="c18_all_platforms_together", target="geckolib.spa:GeckoSpa._on_config_received",
         name="blocking_handshake_selects_exactly_the_reported_tables", timeout=600)
def blocking_handshake_selects_exactly_the_reported_tables(plats):
    n = 0
    sender = ("10.0.0.9", 10022, b"SPA", b"IOS")
    for plat in plats["platforms"]:
        key = plat["platform"]
        pairs = [(cv, plat["log"][0]) for cv in plat["cfg"]] + [(plat["cfg"][0], lv) for lv in plat["log"]]
        for (cv, lv) in pairs:
            spa = blocking_spa()
            Reported.plateform_key = plat["name"]
            Reported.config_version = cv
            Reported.log_version = lv
            spa._on_config_received(Reported(), sender)
            n = n + 1
            ensures("pack-table-is-the-platform's", type(spa.new_pack_class) is importlib.import_module("geckolib.driver.packs.%s" % key).GeckoPack)
            ensures("config-table-is-the-reported-platform-and-version",
                    type(spa.new_config_class) is importlib.import_module("geckolib.driver.packs.%s-cfg-%d" % (key, cv)).GeckoConfigStruct)
            ensures("log-table-is-the-reported-platform-and-version",
                    type(spa.new_log_class) is importlib.import_module("geckolib.driver.packs.%s-log-%d" % (key, lv)).GeckoLogStruct)
            ensures("versions-recorded", both(spa.config_version == cv, spa.log_version == lv, spa.pack_type == spa.new_pack_class.type))
            ensures("then-exactly-one-full-block-request-is-registered-and-queued",
                    both(len(spa._receive_handlers) == 1, len(spa._send_handlers) == 1,
                         spa._send_handlers[0][0] is spa._receive_handlers[0], spa._send_handlers[0][1] == sender,
                         isinstance(spa._receive_handlers[0], GeckoStatusBlockProtocolHandler),
                         spa._receive_handlers[0]._content == b"STATU\x01\x00\x00\x04\x00"))
            ensures("no-error-flagged", not spa.is_in_error)
    ensures("every-shipped-name-was-looked-up", n == plats["lookups"])


@harness(prop="C18", target="geckolib.spa:GeckoSpa._on_config_received", name="blocking_unknown_names_are_reported_not_guessed")
def blocking_unknown_names_are_reported_not_guessed(which: int):
    requires(both(0 <= which, which <= 2))
    which = concrete_cases(which, 0, 2)
    spa = blocking_spa()
    (Reported.plateform_key, Reported.config_version, Reported.log_version) = [("inNOPE", 53, 53), ("inYT", 999, 53), ("inYT", 53, 999)][which]
    raised = False
    try:
        spa._on_config_received(Reported(), ("10.0.0.9", 10022, b"SPA", b"IOS"))
    except Exception:
        raised = True
    ensures("lookup-failure-is-raised-and-flagged", both(raised, spa.is_in_error))
    ensures("no-block-is-requested-with-missing-tables", both(len(spa._receive_handlers) == 0, len(spa._send_handlers) == 0))
    ensures("missing-table-stays-unset", [spa.new_pack_class, spa.new_config_class, spa.new_log_class][which] is None)
