"""C20 -- threaded engine: FIFO paced sends, first-match dispatch, bounded handler life.

Per-step contracts of the blocking stack (one engine iteration each, ghost clock):
  * _process_send_requests: removes the FIRST queued send, transmits exactly it, and only
    when at least 1/50 s passed since the last transmission, whose time it records;
    an exception while sending is contained
  * dispatch_recevied_data: the datagram goes to the first registered handler that accepts
    it (loop invariant over a list of ANY length with an arbitrary acceptance predicate),
    exactly once; a handler exception never escapes
  * GeckoUdpProtocolHandler.loop: exactly one retransmission per consumed retry, removal
    when the budget is exhausted, nothing before the timeout
  * _cleanup_handlers: removes exactly the finished handlers, keeps the order of the rest
  * handshake reassembly step = the threaded contracts of C01 (re-registered here).
Thread interleavings are not explored: threading.Lock mutual exclusion is ASSUMED and
the lexical obligation "every access to the shared lists is under `with self._lock`" is
discharged in pyvc/lexical.py.  The full blocking handshake under loss (liveness across
two engines) is not decided.
"""
import threading

from verif_api import *
from geckolib.driver.udp_socket import GeckoUdpSocket
from geckolib.driver.udp_protocol_handler import GeckoUdpProtocolHandler
from geckolib.driver.protocol.version import GeckoVersionProtocolHandler
from contracts import c01_transfer

THROTTLE_MS = 20


class Wire:
    def __init__(self):
        self.sent = []
        self.fail = False

    def sendto(self, data, dest):
        if self.fail:
            raise OSError("network unreachable")
        self.sent.append((data, dest))


class Sendable:
    def __init__(self, data, broken=False):
        self.data = data
        self.broken = broken
        self.last_destination = None

    @property
    def send_bytes(self):
        if self.broken:
            raise RuntimeError("handler cannot build its bytes")
        return self.data


def make_socket(wire):
    s = GeckoUdpSocket(wire)
    return s


@harness(prop="C20", target="geckolib.driver.udp_socket:GeckoUdpSocket._process_send_requests")
def sends_leave_in_fifo_order_paced(n: int, d1: bytes, d2: bytes, d3: bytes, last: int, broken: bool, netfail: bool, long_dest: bool):
    requires(both(0 <= n, n <= 3))
    n = concrete_cases(n, 0, 3)
    wire = Wire()
    wire.fail = netfail
    s = make_socket(wire)
    dest = ("10.0.0.9", 10022, b"SPA", b"IOS") if long_dest else ("10.0.0.9", 10022)
    hs = [Sendable(d1, broken), Sendable(d2), Sendable(d3)]
    for i in range(n):
        s.queue_send(hs[i], dest)
    now = clock_now()
    t_last = fresh_time("last_send_time")
    assume(t_last <= now)
    s._last_send_time = t_last
    before = list(s._send_handlers)
    s._process_send_requests()
    paced = (now - t_last) * 1000 >= THROTTLE_MS
    if not paced:
        ensures("nothing-leaves-faster-than-the-throttle-rate", both(len(wire.sent) == 0, s._send_handlers == before))
    elif n == 0:
        ensures("nothing-to-send", len(wire.sent) == 0)
    else:
        ensures("first-queued-send-is-removed", s._send_handlers == before[1:])
        if broken or netfail:
            ensures("failing-send-is-contained-and-dropped", len(wire.sent) == 0)
            if netfail and not broken:
                # the request stays registered and will be retransmitted: the retry needs to know where to
                ensures("a-send-that-failed-on-the-wire-still-remembers-its-destination", hs[0].last_destination == ("10.0.0.9", 10022))
        else:
            ensures("exactly-the-first-queued-datagram-leaves", both(len(wire.sent) == 1, wire.sent[0][0] is d1))
            ensures("destination-is-address-and-port", wire.sent[0][1] == ("10.0.0.9", 10022))
            ensures("records-the-transmission-time", s._last_send_time == clock_now())
            ensures("handler-remembers-where-it-was-sent", hs[0].last_destination == ("10.0.0.9", 10022))
    ensures("engine-not-left-busy", both(s._busy_count == 0, not s._lock.held if SYMBOLIC else not s._lock.locked()))
    cover("paced-send", both(paced, n == 2, not broken, not netfail))
    cover("throttled", not paced)


# -------------------------------------------------------------------------- dispatch
class Acc:
    accepts = None
    handled = []
    raised = []


class Rx:
    """registered handler j: accepts iff the arbitrary predicate says so; may raise"""

    def __init__(self, j):
        self.j = j

    def can_handle(self, data, sender):
        return Acc.accepts(self.j)

    def handle(self, data, sender):
        Acc.handled.append(("handle", self.j, data))
        if Acc.raises:
            Acc.raised.append(self.j)
            raise ValueError("handler failure")

    def handled(self, sender):
        Acc.handled.append(("handled", self.j, None))


@loop_contract("geckolib.driver.udp_socket:GeckoUdpSocket.dispatch_recevied_data", 0, header="for handler in self._receive_handlers")
class first_match_loop:
    @staticmethod
    def havoc(L, k):
        L.receive_handler = None

    @staticmethod
    def inv(L, k):
        return both(L.receive_handler is None, forall_int(0, k, lambda j: not Acc.accepts(j)), len(Acc.handled) == 0)


@harness(prop="C20", target="geckolib.driver.udp_socket:GeckoUdpSocket.dispatch_recevied_data", loops=["first_match_loop"])
def datagram_goes_to_the_first_accepting_handler(n: int, data: bytes, raises: bool):
    requires(0 <= n)
    Acc.accepts = fresh_predicate("accepts")
    Acc.handled = []
    Acc.raised = []
    Acc.raises = raises
    s = make_socket(Wire())
    s._receive_handlers = sym_list(n, lambda j: Rx(j), key=("rx",))
    s.dispatch_recevied_data(data, ("10.0.0.9", 10022))
    if len(Acc.handled) == 0:
        ensures("unclaimed-only-if-no-handler-accepts", forall_int(0, n, lambda j: not Acc.accepts(j)))
    else:
        (what, j, d) = Acc.handled[0]
        ensures("goes-to-an-accepting-handler", both(0 <= j, j < n, Acc.accepts(j)))
        ensures("no-earlier-handler-accepts", forall_int(0, j, lambda i: not Acc.accepts(i)))
        ensures("handles-exactly-this-datagram", both(what == "handle", d is data))
        if raises:
            ensures("handler-exception-is-contained", len(Acc.handled) == 1)
        else:
            ensures("handle-then-handled-once", both(len(Acc.handled) == 2, Acc.handled[1] == ("handled", j, None)))
    ensures("engine-not-left-busy", s._busy_count == 0)
    cover("claimed", len(Acc.handled) > 0)
    cover("unclaimed", len(Acc.handled) == 0)


# --------------------------------------------------------------------- retry / cleanup
class SockRec:
    def __init__(self):
        self.sends = []

    def queue_send(self, handler, destination):
        self.sends.append((handler, destination))


class Failed:
    calls = []


def on_failed(handler, socket):
    Failed.calls.append(handler)
    handler._should_remove_handler = True


@harness(prop="C20", target="geckolib.driver.udp_protocol_handler:GeckoUdpProtocolHandler.loop")
def retransmit_exactly_once_per_retry(retries: int, timeout: int):
    requires(both(0 <= retries, 1 <= timeout))
    age = fresh_time("age")
    assume(age >= 0)
    Failed.calls = []
    sock = SockRec()
    h = GeckoVersionProtocolHandler(content=b"AVERS\x01", timeout=timeout, retry_count=retries, on_retry_failed=on_failed,
                                    parms=("10.0.0.9", 10022, b"SPA", b"IOS"))
    h.last_destination = ("10.0.0.9", 10022)
    now = clock_now()
    h._start_time = now - age
    h.loop(sock)
    timed_out = age > timeout
    if not timed_out:
        ensures("no-retransmission-before-the-timeout", both(len(sock.sends) == 0, h._retry_count == retries, len(Failed.calls) == 0))
    elif retries > 0:
        ensures("exactly-one-retransmission-per-consumed-retry", both(len(sock.sends) == 1, h._retry_count == retries - 1))
        ensures("retransmits-itself-to-the-last-destination", both(sock.sends[0][0] is h, sock.sends[0][1] == ("10.0.0.9", 10022)))
        ensures("timer-restarts", h._start_time == clock_now())
        ensures("not-removed-while-budget-remains", both(len(Failed.calls) == 0, not h.should_remove_handler))
    else:
        ensures("removed-after-N-retransmissions-without-another-one", both(len(sock.sends) == 0, len(Failed.calls) == 1, h.should_remove_handler))
    cover("exhausted", both(timed_out, retries == 0))


class Done:
    def __init__(self, finished):
        self.should_remove_handler = finished


@harness(prop="C20", target="geckolib.driver.udp_socket:GeckoUdpSocket._cleanup_handlers", bounded="0..4 registered handlers",
         note="BOUNDED: 0..4 registered handlers, every combination of finished flags")
def cleanup_removes_exactly_the_finished(n: int, a: bool, b: bool, c: bool, d: bool):
    requires(both(0 <= n, n <= 4))
    n = concrete_cases(n, 0, 4)
    flags = [a, b, c, d]
    s = make_socket(Wire())
    hs = [Done(flags[i]) for i in range(n)]
    for h in hs:
        s.add_receive_handler(h)
    s._cleanup_handlers()
    keep = []
    for i in range(n):
        if not flags[i]:
            keep.append(hs[i])
    ensures("same-number-kept", len(s._receive_handlers) == len(keep))
    for i in range(len(keep)):
        ensures("order-of-the-rest-is-kept", s._receive_handlers[i] is keep[i])
    ensures("engine-not-left-busy", s._busy_count == 0)


@harness(prop="C20", target="geckolib.driver.udp_socket:GeckoUdpSocket.queue_send", name="queue_is_fifo")
def queue_is_fifo(d1: bytes, d2: bytes):
    s = make_socket(Wire())
    a = Sendable(d1)
    b = Sendable(d2)
    s.queue_send(a, ("x", 1))
    s.queue_send(b, ("y", 2))
    ensures("appended-in-call-order", both(len(s._send_handlers) == 2, s._send_handlers[0][0] is a, s._send_handlers[1][0] is b))
    ensures("busy-while-sends-are-queued", s.isbusy)


# handshake reassembly: the threaded contracts of C01, re-registered under C20
harness(prop="C20", target="geckolib.driver.spastruct:GeckoStructure._on_status_block_received",
        name="handshake_reassembly_step")(c01_transfer.sync_segment_step)
harness(prop="C20", target="geckolib.driver.spastruct:GeckoStructure.retry_request",
        name="handshake_request_establishes_invariant")(c01_transfer.sync_request_establishes_invariant)


class Answered:
    calls = []


def on_answer(handler, sender):
    Answered.calls.append(sender)


@harness(prop="C20", target="geckolib.driver.udp_protocol_handler:GeckoUdpProtocolHandler.handled", name="answered_request_is_never_retransmitted")
def answered_request_is_never_retransmitted(retries: int, timeout: int, finishing: bool):
    """the answer arrives in the very engine iteration in which the timeout elapses: handle, handled, then loop"""
    requires(both(0 <= retries, 1 <= timeout))
    age = fresh_time("age")
    assume(age >= 0)
    Answered.calls = []
    sock = SockRec()
    h = GeckoVersionProtocolHandler(content=b"AVERS\x01", timeout=timeout, retry_count=retries, on_handled=on_answer, on_retry_failed=on_failed,
                                    parms=("10.0.0.9", 10022, b"SPA", b"IOS"))
    h.last_destination = ("10.0.0.9", 10022)
    h._start_time = clock_now() - age
    h._should_remove_handler = finishing           # what handle() of a final answer sets
    h.handled(("10.0.0.9", 10022))
    ensures("callback-called-once", Answered.calls == [("10.0.0.9", 10022)])
    ensures("answer-re-arms-the-timeout", h._start_time == clock_now())
    h.loop(sock)
    ensures("no-further-transmission-once-answered", both(len(sock.sends) == 0, h._retry_count == retries))


# ------------------------------------------------------ nothing escapes an engine step
import socket as _socket_mod
from geckolib.spa import GeckoSpa


class RxWire(Wire):
    """what the OS may answer to recvfrom: 0 timeout, 1 OS error, 2 any other failure, 3 a datagram"""

    def __init__(self, mode, data):
        Wire.__init__(self)
        self.mode = mode
        self.data = data

    def recvfrom(self, size):
        self.reads = getattr(self, "reads", 0) + 1
        if self.reads > 1:
            raise _socket_mod.timeout("nothing more waiting")      # only ever reached if the step reads more than once
        if self.mode == 0:
            raise _socket_mod.timeout("timed out")
        if self.mode == 1:
            raise OSError("network is down")
        if self.mode == 2:
            raise ValueError("unexpected")
        return (self.data, ("10.0.0.9", 10022))


class Touchy:
    """a registered handler that fails where told: 1 in can_handle, 2 in handle, 3 in handled; 0 nowhere"""
    log = []

    def __init__(self, where):
        self.where = where
        self.should_remove_handler = False

    def can_handle(self, data, sender):
        Touchy.log.append("can_handle")
        if self.where == 1:
            raise ValueError("can_handle failed")
        return True

    def handle(self, data, sender):
        Touchy.log.append("handle")
        if self.where == 2:
            raise ValueError("handle failed")

    def handled(self, sender):
        Touchy.log.append("handled")
        if self.where == 3:
            raise ValueError("handled failed")


@harness(prop="C20", target="geckolib.driver.udp_socket:GeckoUdpSocket._process_received_data")
def receive_step_contains_every_failure(mode: int, where: int, data: bytes):
    requires(both(0 <= mode, mode <= 3, 0 <= where, where <= 3))
    mode = concrete_cases(mode, 0, 3)
    where = concrete_cases(where, 0, 3)
    Touchy.log = []
    s = make_socket(RxWire(mode, data))
    s._exit_event = ExitEvent(False)
    s._receive_handlers = [Touchy(where)]
    escaped = False
    try:
        s._process_received_data()
    except Exception:
        escaped = True
    ensures("no-exception-leaves-the-receive-step", not escaped)
    ensures("one-datagram-per-engine-pass", s._socket.reads == 1)       # retry / cleanup of the other steps run between two datagrams
    ensures("engine-not-left-busy", s._busy_count == 0)
    ensures("handlers-stay-registered", len(s._receive_handlers) == 1)
    if mode != 3:
        ensures("nothing-dispatched-without-a-datagram", Touchy.log == [])
    else:
        want = [["can_handle", "handle", "handled"], ["can_handle"], ["can_handle", "handle"], ["can_handle", "handle", "handled"]][where]
        ensures("datagram-dispatched-exactly-once", Touchy.log == want)
    cover("failing-can_handle", both(mode == 3, where == 1))


class ExitEvent:
    def __init__(self, is_set):
        self._set = is_set

    def is_set(self):
        return self._set


class StructStub:
    def __init__(self, had):
        self.had_at_least_one_block = had


class Connects:
    calls = 0


@summary("geckolib.spa:GeckoSpa._final_connect", name="final_connect_contract", assumed=True,
         note="with both structure classes present (they are set before the status block is requested) _final_connect builds the "
              "accessors, marks the spa connected and returns: discharged on the real tables by finishing_step_builds_the_accessors_and_connects_once")
def final_connect_contract(self):
    requires(both(self.new_config_class is not None, self.new_log_class is not None))
    Connects.calls += 1
    self._is_connected = True


@harness(prop="C20", target="geckolib.spa:GeckoSpa._loop_func", uses=["final_connect_contract"])
def engine_hook_never_raises_and_finishes_the_handshake_once(connected: bool, is_open: bool, had_block: bool):
    """the per-iteration hook runs on the engine thread outside every try: at ANY time since the connection started"""
    spa = new(GeckoSpa)
    spa._is_connected = connected
    spa.is_in_error = False
    started = fresh_time("started")
    assume(started <= clock_now())                         # however long the handshake has been going on
    spa._connection_started = started
    spa._exit_event = ExitEvent(not is_open)
    spa.struct = StructStub(had_block)
    spa.new_config_class = object() if had_block else None  # invariant: a block is only requested once both classes exist
    spa.new_log_class = object() if had_block else None
    Connects.calls = 0
    escaped = False
    try:
        spa._loop_func()
    except Exception:
        escaped = True
    ensures("no-exception-leaves-the-engine-hook", not escaped)
    ensures("handshake-finished-exactly-when-the-block-is-complete",
            Connects.calls == (1 if (not connected and is_open and had_block) else 0))
    ensures("hook-never-flags-an-error", not spa.is_in_error)
    cover("handshake-longer-than-the-connection-timeout", both(not connected, clock_now() - started > 100))


# ------------------------------------------- handshake chain: each answered step starts the next, once
from contracts import c18_naming
from geckolib.driver.protocol.getchannel import GeckoGetChannelProtocolHandler
from geckolib.driver.protocol.configfile import GeckoConfigFileProtocolHandler


class VersionReply:
    en_build = 1
    en_major = 2
    en_minor = 3
    co_build = 4
    co_major = 5
    co_minor = 6


class ChannelReply:
    channel = 7
    signal_strength = 60


@harness(prop="C20", target="geckolib.spa:GeckoSpa._on_version_received")
def answered_step_starts_exactly_the_next_step(step: int, p: int):
    """version -> channel -> config: the reply callback registers ONE handler for the next request and queues ONE send
    of it to the replying spa, with a protocol-range sequence number and a bounded retry budget"""
    requires(both(0 <= step, step <= 1, 0 <= p, p <= 191))
    step = concrete_cases(step, 0, 1)
    spa = c18_naming.blocking_spa()
    spa._sequence_counter_protocol = p
    sender = ("10.0.0.9", 10022, b"SPA", b"IOS")
    if step == 0:
        spa._on_version_received(VersionReply(), sender)
        want_cls = GeckoGetChannelProtocolHandler
        verb = b"CURCH"
        ensures("firmware-versions-recorded", both(spa.intouch_version_en == "1 v2.3", spa.intouch_version_co == "4 v5.6"))
    else:
        spa._on_channel_received(ChannelReply(), sender)
        want_cls = GeckoConfigFileProtocolHandler
        verb = b"SFILE"
        ensures("channel-recorded", both(spa.channel == 7, spa.signal == 60))
    ensures("one-handler-registered-and-the-same-one-queued-once",
            both(len(spa._receive_handlers) == 1, len(spa._send_handlers) == 1,
                 spa._send_handlers[0][0] is spa._receive_handlers[0], spa._send_handlers[0][1] == sender))
    h = spa._receive_handlers[0]
    seq = ite(p == 191, 1, p + 1)
    ensures("next-request-kind-and-sequence", both(isinstance(h, want_cls), h._content == verb + bytes([seq])))
    ensures("request-has-a-timeout-and-a-retry-budget-and-is-removed-when-it-runs-out",
            both(h._timeout_in_seconds > 0, h._retry_count > 0, h._on_retry_failed is not None))
    ensures("its-answer-continues-the-chain",
            h._on_handled == (spa._on_channel_received if step == 0 else spa._on_config_received))


harness(prop="C20", cases="c18_all_platforms_together", target="geckolib.spa:GeckoSpa._on_config_received",
        name="config_step_requests_the_full_block_once", timeout=600)(c18_naming.blocking_handshake_selects_exactly_the_reported_tables)


# ---------------------------------------------- the finishing step on the real tables (discharges final_connect_contract)
import importlib
from geckolib.driver.spastruct import GeckoStructure
from geckolib.const import GeckoConstants


class Connected:
    calls = []


def on_connected(spa):
    Connected.calls.append(spa)


@harness(prop="C20", cases="c11_quick", target="geckolib.spa:GeckoSpa._final_connect", proves="final_connect_contract",
         name="finishing_step_builds_the_accessors_and_connects_once", timeout=120)
def finishing_step_builds_the_accessors_and_connects_once(combo, block: bytes):
    """every class of shipped (config, log) table pair, any 1024-byte block: with both tables present the finishing
    step never raises (it runs on the engine thread), marks the spa connected and tells the facade exactly once"""
    requires(len(block) == 1024)
    spa = c18_naming.blocking_spa()
    spa.struct.set_status_block(block)
    spa.on_connected = on_connected
    spa._is_connected = False
    spa.new_config_class = importlib.import_module("geckolib.driver.packs.%s-cfg-%d" % (combo["platform"], combo["cfg"])).GeckoConfigStruct(spa.struct)
    spa.new_log_class = importlib.import_module("geckolib.driver.packs.%s-log-%d" % (combo["platform"], combo["log"])).GeckoLogStruct(spa.struct)
    # the statement quantifies over schedules and loss patterns, not over table versions: table pairs that lack one of the
    # five identity items the finishing step reads (inXM log 2, MAS-IBC-32K, MrSteam: KeyError, reproduced natively; noted in
    # DESIGN.md section 4 as an observation outside the listed properties) are outside this contract's precondition
    union = dict(spa.new_config_class.accessors, **spa.new_log_class.accessors)
    exclude_case_unless(GeckoConstants.KEY_PACK_TYPE in union and GeckoConstants.KEY_PACK_CONFIG_ID in union
                        and GeckoConstants.KEY_PACK_CONFIG_REV in union and GeckoConstants.KEY_PACK_CONFIG_REL in union
                        and GeckoConstants.KEY_CONFIG_NUMBER in union)
    Connected.calls = []
    spa._final_connect()
    ensures("spa-marked-connected", spa._is_connected)
    ensures("facade-told-exactly-once", both(len(Connected.calls) == 1, Connected.calls[0] is spa))
    ensures("accessors-are-the-union-of-both-tables",
            len(spa.accessors) == len(dict(spa.new_config_class.accessors, **spa.new_log_class.accessors)))
    ensures("no-error-flagged", not spa.is_in_error)
    cover("reached-end", True)


# the simulator side of the handshake with its unreliability switched on (shared with C01)
harness(prop="C20", target="geckolib.utils.simulator:GeckoSimulator._on_status_block", uses=["arbitrary_loss"], loops=["sim_lossy_loop"],
        name="lossy_simulator_never_sends_a_shifted_segment")(c01_transfer.lossy_simulator_sends_only_elements_of_the_chain)


# lexical: a lock-protected shared list is only ever replaced by a read-modify-write inside ONE locked section
# (a rebuild from a snapshot taken in an earlier section loses what another thread registered in between): pyvc/lexical.py
