"""C20 -- threaded engine: FIFO paced sends, first-match dispatch, bounded handler life.

Per-step contracts of the blocking stack (one engine iteration each, ghost clock):
  * _process_send_requests: removes the FIRST queued send, transmits exactly it, and only
    when at least 1/50 s passed since the last transmission, whose time it records;
    an exception while sending is contained
  * dispatch_recevied_data: the datagram goes to the first registered handler that accepts
    it (loop invariant over a list of ANY length with an arbitrary acceptance predicate),
    exactly once; a handler exception never escapes
  * GeckoUdpProtocolHandler.loop: exactly one retransmission per consumed retry, removal
    when the budget is exhausted, nothing before the timeout
  * _cleanup_handlers: removes exactly the finished handlers, keeps the order of the rest
  * handshake reassembly step = the threaded contracts of C01 (re-registered here).
Thread interleavings are not explored: threading.Lock mutual exclusion is ASSUMED and
the lexical obligation "every access to the shared lists is under `with self._lock`" is
discharged in pyvc/lexical.py.  The full blocking handshake under loss (liveness across
two engines) is not decided.
"""
import threading

from verif_api import *
from geckolib.driver.udp_socket import GeckoUdpSocket
from geckolib.driver.udp_protocol_handler import GeckoUdpProtocolHandler
from geckolib.driver.protocol.version import GeckoVersionProtocolHandler
from contracts import c01_transfer

THROTTLE_MS = 20


class Wire:
    def __init__(self):
        self.sent = []
        self.fail = False

    def sendto(self, data, dest):
        if self.fail:
            raise OSError("network unreachable")
        self.sent.append((data, dest))


class Sendable:
    def __init__(self, data, broken=False):
        self.data = data
        self.broken = broken
        self.last_destination = None

    @property
    def send_bytes(self):
        if self.broken:
            raise RuntimeError("handler cannot build its bytes")
        return self.data


def make_socket(wire):
    s = GeckoUdpSocket(wire)
    return s


@harness(prop="C20", target="geckolib.driver.udp_socket:GeckoUdpSocket._process_send_requests")
def sends_leave_in_fifo_order_paced(n: int, d1: bytes, d2: bytes, d3: bytes, last: int, broken: bool, netfail: bool, long_dest: bool):
    requires(both(0 <= n, n <= 3))
    n = concrete_cases(n, 0, 3)
    wire = Wire()
    wire.fail = netfail
    s = make_socket(wire)
    dest = ("10.0.0.9", 10022, b"SPA", b"IOS") if long_dest else ("10.0.0.9", 10022)
    hs = [Sendable(d1, broken), Sendable(d2), Sendable(d3)]
    for i in range(n):
        s.queue_send(hs[i], dest)
    now = clock_now()
    t_last = fresh_time("last_send_time")
    assume(t_last <= now)
    s._last_send_time = t_last
    before = list(s._send_handlers)
    s._process_send_requests()
    paced = (now - t_last) * 1000 >= THROTTLE_MS
    if not paced:
        ensures("nothing-leaves-faster-than-the-throttle-rate", both(len(wire.sent) == 0, s._send_handlers == before))
    elif n == 0:
        ensures("nothing-to-send", len(wire.sent) == 0)
    else:
        ensures("first-queued-send-is-removed", s._send_handlers == before[1:])
        if broken or netfail:
            ensures("failing-send-is-contained-and-dropped", len(wire.sent) == 0)
        else:
            ensures("exactly-the-first-queued-datagram-leaves", both(len(wire.sent) == 1, wire.sent[0][0] is d1))
            ensures("destination-is-address-and-port", wire.sent[0][1] == ("10.0.0.9", 10022))
            ensures("records-the-transmission-time", s._last_send_time == clock_now())
            ensures("handler-remembers-where-it-was-sent", hs[0].last_destination == ("10.0.0.9", 10022))
    ensures("engine-not-left-busy", both(s._busy_count == 0, not s._lock.held if SYMBOLIC else not s._lock.locked()))
    cover("paced-send", both(paced, n == 2, not broken, not netfail))
    cover("throttled", not paced)


# -------------------------------------------------------------------------- dispatch
class Acc:
    accepts = None
    handled = []
    raised = []


class Rx:
    """registered handler j: accepts iff the arbitrary predicate says so; may raise"""

    def __init__(self, j):
        self.j = j

    def can_handle(self, data, sender):
        return Acc.accepts(self.j)

    def handle(self, data, sender):
        Acc.handled.append(("handle", self.j, data))
        if Acc.raises:
            Acc.raised.append(self.j)
            raise ValueError("handler failure")

    def handled(self, sender):
        Acc.handled.append(("handled", self.j, None))


@loop_contract("geckolib.driver.udp_socket:GeckoUdpSocket.dispatch_recevied_data", 0, header="for handler in self._receive_handlers")
class first_match_loop:
    @staticmethod
    def havoc(L, k):
        L.receive_handler = None

    @staticmethod
    def inv(L, k):
        return both(L.receive_handler is None, forall_int(0, k, lambda j: not Acc.accepts(j)), len(Acc.handled) == 0)


@harness(prop="C20", target="geckolib.driver.udp_socket:GeckoUdpSocket.dispatch_recevied_data", loops=["first_match_loop"])
def datagram_goes_to_the_first_accepting_handler(n: int, data: bytes, raises: bool):
    requires(0 <= n)
    Acc.accepts = fresh_predicate("accepts")
    Acc.handled = []
    Acc.raised = []
    Acc.raises = raises
    s = make_socket(Wire())
    s._receive_handlers = sym_list(n, lambda j: Rx(j), key=("rx",))
    s.dispatch_recevied_data(data, ("10.0.0.9", 10022))
    if len(Acc.handled) == 0:
        ensures("unclaimed-only-if-no-handler-accepts", forall_int(0, n, lambda j: not Acc.accepts(j)))
    else:
        (what, j, d) = Acc.handled[0]
        ensures("goes-to-an-accepting-handler", both(0 <= j, j < n, Acc.accepts(j)))
        ensures("no-earlier-handler-accepts", forall_int(0, j, lambda i: not Acc.accepts(i)))
        ensures("handles-exactly-this-datagram", both(what == "handle", d is data))
        if raises:
            ensures("handler-exception-is-contained", len(Acc.handled) == 1)
        else:
            ensures("handle-then-handled-once", both(len(Acc.handled) == 2, Acc.handled[1] == ("handled", j, None)))
    ensures("engine-not-left-busy", s._busy_count == 0)
    cover("claimed", len(Acc.handled) > 0)
    cover("unclaimed", len(Acc.handled) == 0)


# --------------------------------------------------------------------- retry / cleanup
class SockRec:
    def __init__(self):
        self.sends = []

    def queue_send(self, handler, destination):
        self.sends.append((handler, destination))


class Failed:
    calls = []


def on_failed(handler, socket):
    Failed.calls.append(handler)
    handler._should_remove_handler = True


@harness(prop="C20", target="geckolib.driver.udp_protocol_handler:GeckoUdpProtocolHandler.loop")
def retransmit_exactly_once_per_retry(retries: int, timeout: int):
    requires(both(0 <= retries, 1 <= timeout))
    age = fresh_time("age")
    assume(age >= 0)
    Failed.calls = []
    sock = SockRec()
    h = GeckoVersionProtocolHandler(content=b"AVERS\x01", timeout=timeout, retry_count=retries, on_retry_failed=on_failed,
                                    parms=("10.0.0.9", 10022, b"SPA", b"IOS"))
    h.last_destination = ("10.0.0.9", 10022)
    now = clock_now()
    h._start_time = now - age
    h.loop(sock)
    timed_out = age > timeout
    if not timed_out:
        ensures("no-retransmission-before-the-timeout", both(len(sock.sends) == 0, h._retry_count == retries, len(Failed.calls) == 0))
    elif retries > 0:
        ensures("exactly-one-retransmission-per-consumed-retry", both(len(sock.sends) == 1, h._retry_count == retries - 1))
        ensures("retransmits-itself-to-the-last-destination", both(sock.sends[0][0] is h, sock.sends[0][1] == ("10.0.0.9", 10022)))
        ensures("timer-restarts", h._start_time == clock_now())
        ensures("not-removed-while-budget-remains", both(len(Failed.calls) == 0, not h.should_remove_handler))
    else:
        ensures("removed-after-N-retransmissions-without-another-one", both(len(sock.sends) == 0, len(Failed.calls) == 1, h.should_remove_handler))
    cover("exhausted", both(timed_out, retries == 0))


class Done:
    def __init__(self, finished):
        self.should_remove_handler = finished


@harness(prop="C20", target="geckolib.driver.udp_socket:GeckoUdpSocket._cleanup_handlers", bounded="0..4 registered handlers",
         note="BOUNDED: 0..4 registered handlers, every combination of finished flags")
def cleanup_removes_exactly_the_finished(n: int, a: bool, b: bool, c: bool, d: bool):
    requires(both(0 <= n, n <= 4))
    n = concrete_cases(n, 0, 4)
    flags = [a, b, c, d]
    s = make_socket(Wire())
    hs = [Done(flags[i]) for i in range(n)]
    for h in hs:
        s.add_receive_handler(h)
    s._cleanup_handlers()
    keep = []
    for i in range(n):
        if not flags[i]:
            keep.append(hs[i])
    ensures("same-number-kept", len(s._receive_handlers) == len(keep))
    for i in range(len(keep)):
        ensures("order-of-the-rest-is-kept", s._receive_handlers[i] is keep[i])
    ensures("engine-not-left-busy", s._busy_count == 0)


@harness(prop="C20", target="geckolib.driver.udp_socket:GeckoUdpSocket.queue_send", name="queue_is_fifo")
def queue_is_fifo(d1: bytes, d2: bytes):
    s = make_socket(Wire())
    a = Sendable(d1)
    b = Sendable(d2)
    s.queue_send(a, ("x", 1))
    s.queue_send(b, ("y", 2))
    ensures("appended-in-call-order", both(len(s._send_handlers) == 2, s._send_handlers[0][0] is a, s._send_handlers[1][0] is b))
    ensures("busy-while-sends-are-queued", s.isbusy)


# handshake reassembly: the threaded contracts of C01, re-registered under C20
harness(prop="C20", target="geckolib.driver.spastruct:GeckoStructure._on_status_block_received",
        name="handshake_reassembly_step")(c01_transfer.sync_segment_step)
harness(prop="C20", target="geckolib.driver.spastruct:GeckoStructure.retry_request",
        name="handshake_request_establishes_invariant")(c01_transfer.sync_request_establishes_invariant)


class Answered:
    calls = []


def on_answer(handler, sender):
    Answered.calls.append(sender)


@harness(prop="C20", target="geckolib.driver.udp_protocol_handler:GeckoUdpProtocolHandler.handled", name="answered_request_is_never_retransmitted")
def answered_request_is_never_retransmitted(retries: int, timeout: int, finishing: bool):
    """the answer arrives in the very engine iteration in which the timeout elapses: handle, handled, then loop"""
    requires(both(0 <= retries, 1 <= timeout))
    age = fresh_time("age")
    assume(age >= 0)
    Answered.calls = []
    sock = SockRec()
    h = GeckoVersionProtocolHandler(content=b"AVERS\x01", timeout=timeout, retry_count=retries, on_handled=on_answer, on_retry_failed=on_failed,
                                    parms=("10.0.0.9", 10022, b"SPA", b"IOS"))
    h.last_destination = ("10.0.0.9", 10022)
    h._start_time = clock_now() - age
    h._should_remove_handler = finishing           # what handle() of a final answer sets
    h.handled(("10.0.0.9", 10022))
    ensures("callback-called-once", Answered.calls == [("10.0.0.9", 10022)])
    ensures("answer-re-arms-the-timeout", h._start_time == clock_now())
    h.loop(sock)
    ensures("no-further-transmission-once-answered", both(len(sock.sends) == 0, h._retry_count == retries))
