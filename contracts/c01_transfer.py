"""C01 -- status-block transfer installs the spa's bytes or nothing, under any faults.

Spec (written from the statement):  N = ceil(length/39) segments,
  seg(k)  = spa[start+39k : start+39k+min(39, 1024-(start+39k))],  nxt(k) = k+1 (k < N-1) else 0.

* simulator `_on_status_block`: the queued datagrams are exactly the chain
  STATV(k, nxt(k), seg(k)), k = 0..N-1              (loop cut at an inductive invariant)
* client, async `GeckoAsyncStructure.get` and threaded `_on_status_block_received`:
  ENVIRONMENT CONTRACT -- every delivered segment is *some* chain element (any order,
  any multiplicity, any omission) or a timeout; nothing else is assumed.  Then:
  success  => block' = old[:start] + spa[start:start+T] + old[start+T:]  (T >= length)
  failure  => block' = old;  at most retry_count requests are sent.
"""
from verif_api import *
from geckolib.driver.async_spastruct import GeckoAsyncStructure
from geckolib.driver.spastruct import GeckoStructure
from geckolib.driver.protocol.statusblock import GeckoStatusBlockProtocolHandler
from geckolib.driver.udp_protocol_handler import GeckoUdpProtocolHandler
from geckolib.utils.simulator import GeckoSimulator
import asyncio

SEG = 39


def nseg(length):
    return (length + 38) // 39


def seg_len(start, k):
    return min(39, 1024 - (start + 39 * k))


def seg(spa, start, k):
    lo = start + 39 * k
    return spa[lo:lo + seg_len(start, k)]


def nxt(k, n):
    return ite(k == n - 1, 0, k + 1)


def total_bytes(start, length):
    """bytes the chain delivers: whole segments, the last one clipped at the block end"""
    n = nseg(length)
    return 39 * (n - 1) + seg_len(start, n - 1)


def statv(spa, start, length, k):
    return b"STATV" + bytes([k, nxt(k, nseg(length)), seg_len(start, k)]) + seg(spa, start, k)


def valid_request(spa, start, length):
    return both(len(spa) == 1024, 1 <= length, 0 <= start, start + length <= 1024)


SENDER = ("10.0.0.9", 10022, b"SPA", b"IOS")


# =========================================================================== simulator
class ChainMonitor:
    """stands for the simulator's socket: checks the k-th queued datagram against STATV(k)"""

    def __init__(self, spa, start, length):
        self.spa = spa
        self.start = start
        self.length = length
        self.count = 0
        self.ok = True

    def queue_send(self, handler, destination):
        k = self.count
        want = statv(self.spa, self.start, self.length, k)
        self.ok = both(self.ok, handler._content == want, handler.parms == destination)
        self.count = k + 1


class SpaStruct:
    def __init__(self, block):
        self.status_block = block


class Req:
    def __init__(self, start, length):
        self.start = start
        self.length = length


@loop_contract("geckolib.utils.simulator:GeckoSimulator._on_status_block", 0,
               header="for idx, start in enumerate(range(handler.start, handler.start + handler.length, self._STATUS_BLOCK_SEGMENT_SIZE))")
class sim_chain_loop:
    """after k iterations exactly the first k chain datagrams have been queued"""

    @staticmethod
    def havoc(L, k):
        L.self._socket.count = k
        L.self._socket.ok = True

    @staticmethod
    def inv(L, k):
        return both(L.self._socket.count == k, L.self._socket.ok)


@harness(prop="C01", target="geckolib.utils.simulator:GeckoSimulator._on_status_block", loops=["sim_chain_loop"])
def simulator_produces_the_chain(spa: bytes, start: int, length: int):
    requires(valid_request(spa, start, length))
    mon = ChainMonitor(spa, start, length)
    sim = new(GeckoSimulator, _socket=mon, structure=SpaStruct(spa), _reliability=1.0, _do_rferr=False)
    sim._on_status_block(Req(start, length), SENDER)
    ensures("whole-chain-queued-in-order", both(mon.count == nseg(length), mon.ok))
    cover("length-multiple-of-39", length == 78)
    cover("last-segment-clipped-at-block-end", start + 39 * nseg(length) > 1024)


# ======================================================================== async client
class Env:
    """ghost: what the environment may deliver for the transfer in progress"""
    spa = None
    start = 0
    length = 0
    in_order = False
    delivered = 0


@summary("geckolib.driver.udp_protocol_handler:GeckoUdpProtocolHandler.wait_for_response", name="env_any_segment_or_timeout",
         assumed=True,
         note="ENVIRONMENT: a delivered datagram is some element of the spa's chain for this transfer (lost / duplicated / re-ordered / delayed within the transfer), or the wait times out")
async def env_any_segment_or_timeout(self, protocol):
    n = nseg(Env.length)
    if Env.in_order:
        k = Env.delivered
        Env.delivered = k + 1
    else:
        if not fresh_bool("delivered"):
            return False
        k = fresh_int("k")
    ensures("env-delivers-a-chain-element", both(0 <= k, k < n))
    self.sequence = k
    self.next = nxt(k, n)
    self.length = seg_len(Env.start, k)
    self.data = seg(Env.spa, Env.start, k)
    return True


class Proto:
    """protocol stand-in: the lock and a counter of transmitted requests"""

    def __init__(self):
        self.Lock = asyncio.Lock()
        self.sends = 0
        self.seq = 0

    def queue_send(self, request, destination=None):
        self.sends = self.sends + 1

    def get_and_increment_sequence_counter(self, command):
        return 1


@loop_contract("geckolib.driver.async_spastruct:GeckoAsyncStructure.get", 0, header="while retry_count > 0")
class get_retry_loop:
    """one request per consumed retry; nothing installed yet"""

    @staticmethod
    def havoc(L):
        L.retry_count = fresh_int("retry_count")
        L.protocol.sends = G.retry0 - L.retry_count

    @staticmethod
    def inv(L):
        return both(0 <= L.retry_count, L.retry_count <= G.retry0, L.protocol.sends == G.retry0 - L.retry_count,
                    L.self._status_block == G.old,
                    implies(Env.in_order, L.retry_count == G.retry0))


@loop_contract("geckolib.driver.async_spastruct:GeckoAsyncStructure.get", 1, header="while True")
class get_segment_loop:
    """the segments accepted so far are exactly the first next_expected chain elements"""

    @staticmethod
    def havoc(L):
        ne = fresh_int("next_expected")
        L.next_expected = ne
        L.segments = [Env.spa[Env.start:Env.start + 39 * ne]]
        if Env.in_order:
            Env.delivered = ne

    @staticmethod
    def inv(L):
        n = nseg(Env.length)
        return both(0 <= L.next_expected, L.next_expected <= n - 1,
                    b"".join(L.segments) == Env.spa[Env.start:Env.start + 39 * L.next_expected],
                    L.self._status_block == G.old,
                    implies(Env.in_order, Env.delivered == L.next_expected))


class G:
    retry0 = 0
    old = None


def make_request(start, length):
    return GeckoStatusBlockProtocolHandler.request(1, start, length, parms=SENDER)


def transfer_post(result, s, old, spa, start, length, proto, retry0):
    t = total_bytes(start, length)
    ensures("block-stays-1024-bytes", len(s.status_block) == 1024)
    ensures("at-most-the-configured-number-of-requests", proto.sends <= retry0)
    if result:
        ensures("delivered-covers-the-request", both(length <= t, start + t <= 1024))
        ensures("success-installs-exactly-the-spa-bytes",
                s.status_block == old[0:start] + spa[start:start + t] + old[start + t:])
    else:
        ensures("failure-leaves-the-copy-untouched", s.status_block == old)


@harness(prop="C01", target="geckolib.driver.async_spastruct:GeckoAsyncStructure.get",
         uses=["env_any_segment_or_timeout"], loops=["get_retry_loop", "get_segment_loop"])
async def async_transfer_all_or_nothing(spa: bytes, old: bytes, start: int, length: int, retry0: int):
    requires(valid_request(spa, start, length))
    requires(both(len(old) == 1024, 0 <= retry0))
    Env.spa = spa
    Env.start = start
    Env.length = length
    Env.in_order = False
    G.retry0 = retry0
    G.old = old
    s = GeckoAsyncStructure(None, None)
    s.set_status_block(old)
    proto = Proto()
    result = await s.get(proto, lambda: make_request(start, length), retry0)
    transfer_post(result, s, old, spa, start, length, proto, retry0)
    cover("success", result)
    cover("failure", not result)


@harness(prop="C01", target="geckolib.driver.async_spastruct:GeckoAsyncStructure.get", name="async_transfer_fault_free_succeeds",
         uses=["env_any_segment_or_timeout"], loops=["get_retry_loop", "get_segment_loop"])
async def async_transfer_fault_free_succeeds(spa: bytes, old: bytes, start: int, length: int, retry0: int):
    """chain delivered in order (what the simulator produces on a fault-free network): success, one request"""
    requires(valid_request(spa, start, length))
    requires(both(len(old) == 1024, 1 <= retry0))
    Env.spa = spa
    Env.start = start
    Env.length = length
    Env.in_order = True
    Env.delivered = 0
    G.retry0 = retry0
    G.old = old
    s = GeckoAsyncStructure(None, None)
    s.set_status_block(old)
    proto = Proto()
    result = await s.get(proto, lambda: make_request(start, length), retry0)
    ensures("fault-free-transfer-succeeds", result)
    ensures("with-a-single-request", proto.sends == 1)
    transfer_post(result, s, old, spa, start, length, proto, retry0)


# ===================================================================== threaded client
class SockRec:
    def __init__(self):
        self.sends = 0
        self.handlers = []

    def queue_send(self, handler, destination):
        self.sends = self.sends + 1

    def add_receive_handler(self, handler):
        self.handlers.append(handler)


def sync_inv(s, old, spa, start, length):
    """representation invariant of the threaded reassembly state between datagrams"""
    n = nseg(length)
    return both(0 <= s._next_expected, s._next_expected <= n - 1,
                b"".join(s._status_block_segments) == spa[start:start + 39 * s._next_expected],
                s._status_block_offset == start, s.status_block == old)


@harness(prop="C01", target="geckolib.driver.spastruct:GeckoStructure.retry_request")
def sync_request_establishes_invariant(spa: bytes, old: bytes, start: int, length: int, stale_ne: int, stale: bytes, used_before: bool):
    requires(valid_request(spa, start, length))
    requires(len(old) == 1024)
    s = GeckoStructure(None)
    s.set_status_block(old)
    if used_before:
        # whatever an earlier (completed or abandoned) transfer left behind must not leak into this one
        s._next_expected = stale_ne
        s._status_block_segments = [stale]
        s._status_block_offset = 7
    sock = SockRec()
    req = make_request(start, length)
    s.retry_request(sock, req, SENDER)
    ensures("one-request-sent", sock.sends == 1)
    ensures("handler-registered-once", len(sock.handlers) == 1)
    ensures("invariant-established", sync_inv(s, old, spa, start, length))
    cover("structure-used-before-with-leftovers", both(used_before, stale_ne > 0, len(stale) > 0))


@harness(prop="C01", target="geckolib.driver.spastruct:GeckoStructure._on_status_block_received")
def sync_segment_step(spa: bytes, old: bytes, start: int, length: int, ne: int, k: int, retries: int):
    """one delivered chain element, any k, in any reassembly state satisfying the invariant"""
    requires(valid_request(spa, start, length))
    requires(len(old) == 1024)
    n = nseg(length)
    requires(both(0 <= k, k < n, 0 <= retries))
    s = GeckoStructure(None)
    s.set_status_block(old)
    sock = SockRec()
    s._socket = sock
    s._status_block_offset = start
    s._next_expected = ne
    s._status_block_segments = [spa[start:start + 39 * ne]]
    requires(sync_inv(s, old, spa, start, length))
    h = make_request(start, length)
    h._retry_count = retries
    h.last_destination = SENDER
    h.sequence = k
    h.next = nxt(k, n)
    h.data = seg(spa, start, k)
    gave_up = False
    try:
        s._on_status_block_received(h, SENDER)
    except RuntimeError:
        gave_up = True
    t = total_bytes(start, length)
    ensures("requests-within-retry-budget", both(sock.sends <= 1, h._retry_count == retries - sock.sends))
    if gave_up:
        ensures("gives-up-only-when-budget-exhausted", retries == 0)
        ensures("failure-leaves-the-copy-untouched", s.status_block == old)
    elif h.should_remove_handler:
        ensures("completes-only-on-the-last-in-order-segment", both(k == ne, k == n - 1))
        ensures("success-installs-exactly-the-spa-bytes",
                s.status_block == old[0:start] + spa[start:start + t] + old[start + t:])
        ensures("marks-first-block-received", s.had_at_least_one_block)
    else:
        ensures("partial-set-never-installed-and-invariant-kept", sync_inv(s, old, spa, start, length))
    cover("completes", both(k == ne, k == n - 1))
    cover("out-of-order-last-segment-restarts", both(k != ne, k == n - 1, retries > 0))


@harness(prop="C01", target="geckolib.driver.udp_protocol_handler:GeckoUdpProtocolHandler.loop", name="sync_timeout_retransmits_within_budget")
def sync_timeout_retransmits_within_budget(retries: int, timed_out: bool):
    """the timeout path of the threaded request: one retransmission per consumed retry, removed when exhausted"""
    requires(0 <= retries)
    sock = SockRec()
    h = make_request(0, 1024)
    h._retry_count = retries
    h.last_destination = SENDER
    now = clock_now()
    h._start_time = now - (h._timeout_in_seconds + 1 if timed_out else 0)
    h.loop(sock)
    if not timed_out:
        ensures("no-retransmission-before-timeout", both(sock.sends == 0, h._retry_count == retries, not h.should_remove_handler))
    elif retries == 0:
        ensures("removed-when-budget-exhausted", both(sock.sends == 0, h.should_remove_handler))
    else:
        ensures("one-retransmission-per-retry", both(sock.sends == 1, h._retry_count == retries - 1, not h.should_remove_handler))


# ------------------------------------------------ the simulator with its unreliability switched on (per-segment loss)
class SubChainMonitor:
    """the lossy simulator may leave segments out, but whatever it sends is THE chain element of its position"""

    def __init__(self, spa, start, length):
        self.spa = spa
        self.start = start
        self.length = length
        self.last = -1
        self.count = 0
        self.ok = True

    def queue_send(self, handler, destination):
        c = handler._content
        idx = byte_at(c, 5)
        self.ok = both(self.ok, idx > self.last, idx < nseg(self.length), handler.parms == destination)
        n = nseg(self.length)
        if n <= 27:
            for k in range(27):
                if k < n:
                    self.ok = both(self.ok, implies(idx == k, c == statv(self.spa, self.start, self.length, k)))
        self.last = idx
        self.count = self.count + 1


class Loss:
    pattern = None
    calls = 0


@summary("geckolib.utils.simulator:GeckoSimulator._should_ignore", name="arbitrary_loss",
         note="the simulator's unreliability (random.random() > reliability): an arbitrary decision per call")
def arbitrary_loss(self, handler, sender, respect_rferr=True):
    i = Loss.calls
    Loss.calls = i + 1
    if i == 0:
        return False                                   # the request itself gets through (otherwise nothing is sent at all)
    return Loss.pattern(i)


@loop_contract("geckolib.utils.simulator:GeckoSimulator._on_status_block", 0,
               header="for idx, start in enumerate(range(handler.start, handler.start + handler.length, self._STATUS_BLOCK_SEGMENT_SIZE))")
class sim_lossy_loop:
    """after k iterations: only chain elements with position < k were queued, each the element of its position"""

    @staticmethod
    def havoc(L, k):
        m = L.self._socket
        m.ok = True
        m.last = fresh_int("last_sent", -1, 26)
        assume(m.last < k)
        Loss.calls = k + 1

    @staticmethod
    def inv(L, k):
        m = L.self._socket
        return both(m.ok, m.last < k)


@harness(prop="C01", target="geckolib.utils.simulator:GeckoSimulator._on_status_block", uses=["arbitrary_loss"], loops=["sim_lossy_loop"],
         name="lossy_simulator_sends_only_elements_of_the_chain")
def lossy_simulator_sends_only_elements_of_the_chain(spa: bytes, start: int, length: int):
    """segments the unreliable simulator does send keep their positional index / next / payload: the client's
    out-of-sequence rule then rejects a chain with a hole instead of installing shifted bytes"""
    requires(valid_request(spa, start, length))
    Loss.pattern = fresh_predicate("segment_lost")
    Loss.calls = 0
    mon = SubChainMonitor(spa, start, length)
    sim = new(GeckoSimulator, _socket=mon, structure=SpaStruct(spa), _reliability=0.5, _do_rferr=False)
    sim._on_status_block(Req(start, length), SENDER)
    ensures("only-chain-elements-in-increasing-position", mon.ok)
    cover("reached-end", True)

