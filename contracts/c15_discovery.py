"""C15 -- discovery lists each spa once, honours the filter, and terminates on time.

  * GeckoAsyncLocator._async_on_discovered: per-reply contract + representation invariant
    NoDup(ids), ids mirror the descriptor list, filter => every listed spa matches
  * GeckoAsyncLocator.discover: loop invariant under a ghost clock with the reply handler
    running (arbitrarily) at every suspension point; exit conditions, time bound,
    endpoint closed and LOC tasks cancelled on return.
Reply *timing* is the environment; asyncio.sleep(d) returns within d + J (ASSUMED, J = 0.05 s).
"""
import asyncio

from verif_api import *
from contracts import c10_leaks as _c10      # first: this sidecar's own contracts of the same names are registered after it
from geckolib.async_locator import GeckoAsyncLocator
from geckolib.async_tasks import AsyncTasks
from geckolib.config import GeckoConfig
from geckolib.spa_events import GeckoSpaEvent
from geckolib.driver.protocol.hello import GeckoHelloProtocolHandler

POLL_MS = 100
J_MS = 50


class Ev:
    log = []


async def record_event(event, **kwargs):
    Ev.log.append((event, kwargs))


def new_locator(address, identifier):
    loc = GeckoAsyncLocator(AsyncTasks(), record_event, spa_address=address, spa_identifier=identifier)
    loc._spas = []
    return loc


def listed_ok(loc):
    """representation invariant of the discovery result"""
    ids = loc._spa_identifiers
    spas = loc._spas
    ok = len(ids) == len(spas)
    for i in range(len(spas)):
        ok = both(ok, spas[i].identifier == ids[i])
        for j in range(i):
            ok = both(ok, ids[i] != ids[j])
        if loc._spa_identifier is not None:
            ok = both(ok, ids[i].decode("latin1") == loc._spa_identifier)
    return ok


class Hello:
    def __init__(self, ident, name):
        self.spa_identifier = ident
        self.spa_name = name


@harness(prop="C15", target="geckolib.async_locator:GeckoAsyncLocator._async_on_discovered",
         bounded="0..2 spas already listed (concrete Python list in the encoding); identifiers, names, filter are symbolic")
async def reply_listed_once_and_filter_honoured(n: int, id1: bytes, id2: bytes, ident: bytes, name: bytes, addr_kind: int,
                                                has_filter: bool, filt: bytes, port: int, empty_filter: bool):
    requires(both(0 <= n, n <= 2, 0 <= addr_kind, addr_kind <= 2))
    n = concrete_cases(n, 0, 2)
    addr_kind = concrete_cases(addr_kind, 0, 2)
    address = [None, "", "10.0.0.9"][addr_kind]          # "" (e.g. an empty configuration field) means: not given
    has_addr = addr_kind == 2
    loc = new_locator(address, filt.decode("latin1") if has_filter else ("" if empty_filter else None))
    requires(implies(has_filter, len(filt) > 0))
    prior = [id1, id2]
    for i in range(n):
        h0 = Hello(prior[i], "spa")
        loc._spa_identifiers.append(prior[i])
        from geckolib.async_spa_descriptor import GeckoAsyncSpaDescriptor
        loc._spas.append(GeckoAsyncSpaDescriptor(prior[i], "spa", ("10.0.0.%d" % i, 10022)))
    requires(listed_ok(loc))
    found0 = loc._has_found_spa
    started0 = fresh_time("discovery_started")
    loc._started = started0
    Ev.log = []
    before_ids = list(loc._spa_identifiers)
    before_spas = list(loc._spas)
    sender = ("10.0.0.77", port)
    text = name.decode("latin1")
    await loc._async_on_discovered(Hello(ident, text), sender)
    dup = False
    for i in range(n):
        dup = either(dup, prior[i] == ident)
    wanted = implies(has_filter, ident == filt)
    if dup or not wanted:
        ensures("duplicate-or-unrequested-reply-changes-nothing",
                both(loc._spa_identifiers == before_ids, len(loc._spas) == n, len(Ev.log) == 0, loc._has_found_spa == found0))
    else:
        ensures("listed-exactly-once", both(len(loc._spas) == n + 1, loc._spa_identifiers == before_ids + [ident]))
        d = loc._spas[n]
        ensures("identifier-name-address-intact", both(d.identifier == ident, d.name == text, d.destination == sender))
        ensures("announced-once-with-the-descriptor",
                both(len(Ev.log) == 1, Ev.log[0][0] is GeckoSpaEvent.LOCATING_DISCOVERED_SPA, Ev.log[0][1]["spa_descriptor"] is d))
        ensures("specific-request-is-satisfied-immediately", loc._has_found_spa == either(found0, has_addr, has_filter))
    for i in range(n):
        ensures("earlier-entries-untouched", loc._spas[i] is before_spas[i])
    ensures("invariant-preserved", listed_ok(loc))
    ensures("a-reply-never-restarts-the-discovery-clock", loc._started == started0)
    cover("filtered-out", both(has_filter, not wanted))
    cover("empty-address-string-is-no-address", both(addr_kind == 1, not has_filter, not dup))
    cover("non-ascii-identifier-requested", both(has_filter, wanted, not dup, len(ident) > 1, byte_at(ident, 1) >= 128))


# ----------------------------------------------------------------------------- discover
class Net:
    endpoints = []
    tasks = []


class Transport:
    def __init__(self):
        self.closed = False
        self.sent = []

    def close(self):
        self.closed = True

    def sendto(self, data, dest):
        self.sent.append((data, dest))


class Fut:
    def set_result(self, r):
        pass


class Loop:
    def create_future(self):
        return Fut()

    async def create_datagram_endpoint(self, factory, **kwargs):
        t = Transport()
        p = factory()
        p.connection_made(t)
        Net.endpoints.append(t)
        return (t, p)


class Task:
    def __init__(self, coro, name):
        self.coro = coro
        self.name = name
        self.cancelled = False

    def get_name(self):
        return self.name

    def cancel(self):
        self.cancelled = True

    def done(self):
        return self.cancelled


def create_task(coro, name=None):
    t = Task(coro, name)
    Net.tasks.append(t)
    return t


def sleep_with_bounded_overshoot(delay):
    d = advance_clock(delay)
    assume(d * 1000 <= round(delay * 1000) + J_MS)


def timeout_ms():
    return GeckoConfig.DISCOVERY_TIMEOUT_IN_SECONDS * 1000


@loop_contract("geckolib.async_locator:GeckoAsyncLocator.discover", 0, header="while self.age < GeckoConfig.DISCOVERY_TIMEOUT_IN_SECONDS")
class discover_loop:
    """the reply handler may have run any number of times while this task slept"""

    @staticmethod
    def havoc(L):
        set_clock(fresh_time("now"))
        n = fresh_int("answered", 0, 2)
        n = concrete_cases(n, 0, 2)
        L.self._spas = ["spa%d" % i for i in range(n)]
        L.self._has_found_spa = both(fresh_bool("found"), n > 0)

    @staticmethod
    def inv(L):
        age = clock_now() - L.self._started
        return both(age >= 0, age * 1000 <= timeout_ms() + POLL_MS + J_MS,
                    implies(L.self._has_found_spa, len(L.self._spas) > 0),
                    len(Net.endpoints) == 1, not Net.endpoints[0].closed)


@harness(prop="C15", target="geckolib.async_locator:GeckoAsyncLocator.discover", loops=["discover_loop"])
async def discovery_terminates_on_time_and_cleans_up(has_addr: bool, has_filter: bool):
    """(the broadcast address for an empty address string is checked in broadcast_goes_to_the_configured_address)"""
    set_sleep_model(sleep_with_bounded_overshoot)
    asyncio.get_running_loop = lambda: Loop()
    asyncio.create_task = create_task
    Net.endpoints = []
    Net.tasks = []
    loc = GeckoAsyncLocator(AsyncTasks(), record_event, spa_address="10.0.0.9" if has_addr else None,
                            spa_identifier="SPA1" if has_filter else None)
    t0 = clock_now()
    await loc.discover()
    elapsed = clock_now() - t0
    ensures("returns-within-the-discovery-timeout-plus-one-poll", elapsed * 1000 <= timeout_ms() + POLL_MS + J_MS)
    ensures("returns-only-when-found-or-answered-after-initial-wait-or-timed-out",
            either(loc._has_found_spa,
                   both(elapsed > GeckoConfig.DISCOVERY_INITIAL_TIMEOUT_IN_SECONDS, len(loc._spas) > 0),
                   elapsed >= GeckoConfig.DISCOVERY_TIMEOUT_IN_SECONDS))
    ensures("exactly-one-endpoint-opened-and-closed", both(len(Net.endpoints) == 1, Net.endpoints[0].closed))
    ensures("locator-lets-go-of-the-endpoint", both(loc._transport is None, loc._protocol is None, not loc.is_running))
    ensures("two-helper-tasks-were-started", len(Net.tasks) == 2)
    for t in Net.tasks:
        ensures("helper-tasks-are-cancelled", both(t.name.startswith("LOC:"), t.cancelled))
    cover("returns-early-for-a-requested-spa", both(loc._has_found_spa, elapsed < 1))
    cover("times-out-with-nothing", both(len(loc._spas) == 0, elapsed >= GeckoConfig.DISCOVERY_TIMEOUT_IN_SECONDS))


@harness(prop="C15", target="geckolib.async_locator:GeckoAsyncLocator.__init__", name="empty_strings_mean_not_given")
def empty_strings_mean_not_given(k: int):
    requires(both(0 <= k, k <= 2))
    address = [None, "", "10.0.0.9"][concrete_cases(k, 0, 2)]
    loc = GeckoAsyncLocator(AsyncTasks(), record_event, spa_address=address, spa_identifier="")
    ensures("empty-address-is-none", (loc._spa_address is None) == (address in (None, "")))
    ensures("empty-identifier-is-none", loc._spa_identifier is None)
    dest = GeckoHelloProtocolHandler.broadcast_address(static_ip=loc._spa_address)
    ensures("broadcast-goes-to-the-configured-address-or-the-broadcast-address",
            dest == ((address, 10022) if address not in (None, "") else ("<broadcast>", 10022)))


# hello decode for any name incl. separators / latin-1 (shared with C04)
from contracts import c04_wire
harness(prop="C15", target="geckolib.driver.protocol.hello:GeckoHelloProtocolHandler.handle",
        name="reply_identifier_and_name_decode_intact")(c04_wire.hello_response_roundtrip)


# ----------------------------------------------------------------------------- the blocking locator (locator.py)
import geckolib.locator as sync_locator
from geckolib.locator import GeckoLocator
from geckolib.spa_descriptor import GeckoSpaDescriptor


class Found:
    log = []


def on_found(descriptor):
    Found.log.append(descriptor)


@harness(prop="C15", target="geckolib.locator:GeckoLocator._on_discovered",
         bounded="0..2 spas already listed (concrete Python list in the encoding); identifiers, names, requested identifier are symbolic")
def blocking_reply_listed_once_and_request_recognised(n: int, id1: bytes, id2: bytes, ident: bytes, name: bytes, want_kind: int,
                                                      want: bytes, addr_kind: int, port: int):
    """want_kind: 0 no identifier requested, 1 requested as str, 2 requested as bytes (get_spa_from_identifier takes both)"""
    requires(both(0 <= n, n <= 2, 0 <= want_kind, want_kind <= 2, 0 <= addr_kind, addr_kind <= 2))
    n = concrete_cases(n, 0, 2)
    want_kind = concrete_cases(want_kind, 0, 2)
    addr_kind = concrete_cases(addr_kind, 0, 2)
    address = [None, "", "10.0.0.9"][addr_kind]
    requires(id1 != id2)
    kw = {"on_found": on_found, "static_ip": address}
    if want_kind == 1:
        kw["spa_to_find"] = want.decode("latin1")
    if want_kind == 2:
        kw["spa_to_find"] = want
    loc = GeckoLocator("uuid", **kw)
    ensures("empty-address-is-no-address", (loc._static_ip is None) == (addr_kind != 2))
    prior = [id1, id2]
    for i in range(n):
        loc.spa_identifiers.append(prior[i])
        loc.spas.append(GeckoSpaDescriptor(loc.client_identifier, prior[i], "spa", ("10.0.0.%d" % i, 10022)))
    before_ids = list(loc.spa_identifiers)
    before_spas = list(loc.spas)
    Found.log = []
    sender = ("10.0.0.77", port)
    text = name.decode("latin1")
    loc._on_discovered(Hello(ident, text), sender)
    dup = False
    for i in range(n):
        dup = either(dup, prior[i] == ident)
    if dup:
        ensures("duplicate-reply-changes-nothing",
                both(loc.spa_identifiers == before_ids, len(loc.spas) == n, len(Found.log) == 0, not loc._has_found_spa))
    else:
        requested = both(want_kind != 0, ident == want)
        if want_kind != 0 and not requested:
            known_finding("C15:blocking-locator-lists-unrequested-spas", True)
            ensures("lists-only-the-requested-identifier", len(loc.spas) == n)
        if want_kind == 0 or requested:
            ensures("listed-exactly-once", both(len(loc.spas) == n + 1, loc.spa_identifiers == before_ids + [ident]))
            d = loc.spas[n]
            ensures("identifier-name-address-intact",
                    both(d.identifier == ident, d.name == text, d.destination == sender, d.client_identifier == loc.client_identifier))
            ensures("announced-once-with-the-descriptor", both(len(Found.log) == 1, Found.log[0] is d))
        ensures("specific-request-is-satisfied-as-soon-as-it-answers",
                loc._has_found_spa == either(requested, addr_kind == 2))
    for i in range(n):
        ensures("earlier-entries-untouched", loc.spas[i] is before_spas[i])
    for i in range(len(loc.spas)):
        for j in range(i):
            ensures("no-identifier-listed-twice", loc.spas[i].identifier != loc.spas[j].identifier)
    cover("requested-as-bytes-and-answered", both(want_kind == 2, ident == want, not dup))
    cover("requested-as-str-and-answered", both(want_kind == 1, ident == want, not dup))
    cover("non-ascii-identifier-requested-as-str", both(want_kind == 1, ident == want, not dup, len(ident) > 1, byte_at(ident, 1) >= 128))


class SyncSocket:
    made = []

    def __init__(self):
        self.isopen = False
        self.handlers = []
        self.closed = 0
        SyncSocket.made.append(self)

    def open(self):
        self.isopen = True

    def close(self):
        self.isopen = False
        self.closed += 1

    def enable_broadcast(self):
        pass

    def add_receive_handler(self, h):
        self.handlers.append(h)

    def queue_send(self, h, dest):
        pass

    def wait(self, timeout):
        d = advance_clock(timeout)
        assume(d * 1000 <= round(timeout * 1000) + J_MS)


class ThreadStub:
    def __init__(self, target=None, daemon=None):
        self.target = target
        self.started = 0
        self.joined = 0

    def start(self):
        self.started += 1

    def join(self):
        self.joined += 1

    @property
    def is_alive(self):
        return self.started > self.joined


@loop_contract("geckolib.locator:GeckoLocator.start_discovery", 0, header="while self.age < GeckoConfig.DISCOVERY_TIMEOUT_IN_SECONDS")
class blocking_discover_loop:
    """the engine thread may have run the reply handler any number of times while this thread waited"""

    @staticmethod
    def havoc(L):
        set_clock(fresh_time("now"))
        n = fresh_int("answered", 0, 2)
        n = concrete_cases(n, 0, 2)
        L.self.spas = ["spa%d" % i for i in range(n)]
        L.self._has_found_spa = both(fresh_bool("found"), n > 0)

    @staticmethod
    def inv(L):
        age = clock_now() - L.self._started
        return both(age >= 0, age * 1000 <= timeout_ms() + POLL_MS + J_MS,
                    implies(L.self._has_found_spa, len(L.self.spas) > 0),
                    len(SyncSocket.made) == 1, SyncSocket.made[0].isopen)


@harness(prop="C15", target="geckolib.locator:GeckoLocator.start_discovery", loops=["blocking_discover_loop"])
def blocking_discovery_terminates_on_time_and_cleans_up(has_addr: bool, has_filter: bool):
    sync_locator.GeckoUdpSocket = SyncSocket
    sync_locator.threading.Thread = ThreadStub
    SyncSocket.made = []
    t0 = clock_now()
    with GeckoLocator("uuid", spa_to_find="SPA1" if has_filter else None, static_ip="10.0.0.9" if has_addr else None) as loc:
        elapsed = clock_now() - t0
        ensures("returns-within-the-discovery-timeout-plus-one-poll", elapsed * 1000 <= timeout_ms() + POLL_MS + J_MS)
        ensures("returns-only-when-found-or-answered-after-initial-wait-or-timed-out",
                either(loc._has_found_spa,
                       both(elapsed > GeckoConfig.DISCOVERY_INITIAL_TIMEOUT_IN_SECONDS, len(loc.spas) > 0),
                       elapsed >= GeckoConfig.DISCOVERY_TIMEOUT_IN_SECONDS))
        ensures("exactly-one-socket-opened-and-closed",
                both(len(SyncSocket.made) == 1, not SyncSocket.made[0].isopen, SyncSocket.made[0].closed == 1))
        ensures("one-hello-handler-registered", len(SyncSocket.made[0].handlers) == 1)
    ensures("socket-closed-once-and-retry-thread-joined",
            both(SyncSocket.made[0].closed == 1, loc._retry_thread.started == 1, loc._retry_thread.joined == 1))
    cover("returns-early-for-a-requested-spa", both(loc._has_found_spa, elapsed < 1))
    cover("times-out-with-nothing", both(len(loc.spas) == 0, elapsed >= GeckoConfig.DISCOVERY_TIMEOUT_IN_SECONDS))

# a reply is never dropped on arrival, whatever is pending (shared with C07)
from contracts import c07_dispatch
harness(prop="C15", target="geckolib.driver.async_udp_protocol:GeckoAsyncUdpProtocol.datagram_received",
        name="no_reply_is_dropped_on_arrival")(c07_dispatch.every_arriving_datagram_is_queued_at_the_tail)



# "helper tasks are gone": the cancellation primitive discover() relies on, with finished-but-untidied tasks of earlier runs
# in a long-lived manager's registry (contract lives in c10_leaks, shared)
harness(prop="C15", target="geckolib.async_tasks:AsyncTasks.cancel_key_tasks", name="every_helper_task_is_cancelled_whatever_else_is_registered",
        bounded="task registries of 0..4 entries (concrete Python list); key and finished-flag of each entry symbolic")(
    _c10.keyed_cancellation_reaches_every_live_task_of_the_domain)


@harness(prop="C15", target="geckolib.async_locator:GeckoAsyncLocator.__init__", name="every_discovery_run_starts_with_an_empty_list")
async def every_discovery_run_starts_with_an_empty_list(ident: bytes, name: bytes):
    """the manager creates a new locator for every locate phase (reconnects): what an earlier run listed does not make a later
    run skip -- or list -- anything"""
    first = GeckoAsyncLocator(AsyncTasks(), record_event, spa_address=None, spa_identifier=None)
    first._spas = []
    await first._async_on_discovered(Hello(ident, name.decode("latin1")), ("10.0.0.77", 10022))
    ensures("first-run-listed-the-spa", both(len(first._spas) == 1, len(first._spa_identifiers) == 1))
    second = GeckoAsyncLocator(AsyncTasks(), record_event, spa_address=None, spa_identifier=None)
    ensures("a-new-run-has-seen-nothing-yet", both(len(second._spa_identifiers) == 0, not second._has_found_spa,
                                                  second._spas is None or len(second._spas) == 0))
    second._spas = []
    Ev.log = []
    await second._async_on_discovered(Hello(ident, name.decode("latin1")), ("10.0.0.77", 10022))
    ensures("the-same-spa-is-listed-again-by-the-new-run", both(len(second._spas) == 1, second._spas[0].identifier == ident, len(Ev.log) == 1))
    ensures("runs-do-not-share-their-lists", both(second._spas is not first._spas, second._spa_identifiers is not first._spa_identifiers))
