"""C14 -- temperature values, units, limits and heater operation are consistent.

IEEE-754 double semantics (z3 Float64, RNE for / * -, RTZ for int()).  The stored word
enters through the callee contract of the base accessor read (`raw_word_contract`): any
16-bit word.
"""
from verif_api import *
from geckolib.driver.accessor import GeckoStructAccessor, GeckoTempStructAccessor
from geckolib.automation.heater import GeckoWaterHeater
from geckolib.const import GeckoConstants


class Units:
    def __init__(self, value):
        self.value = value


class TempStruct:
    """structure stand-in: unit setting + recorder of device writes"""

    def __init__(self, units):
        self.accessors = {"TempUnits": Units(units)}
        self.status_block = b"\x00" * 1024
        self.calls = []

    def set_value(self, pos, length, newvalue):
        self.calls.append((pos, length, newvalue))

    async def async_set_value(self, pos, length, newvalue):
        self.calls.append((pos, length, newvalue))


RAW = [None]


@summary("geckolib.driver.accessor:GeckoStructAccessor._get_value", name="raw_word_contract", assumed=True,
         note="base read of a Word item returns the 16-bit word stored at the item (proved per shape in C02/C03); here: any word")
def raw_word_contract(self, status_block=None):
    return RAW[0]


def units_case(c):
    return "C" if c else "F"


def spec_decode(raw, celsius):
    """the statement: raw/18 degrees C or (raw+320)/10 degrees F"""
    if celsius:
        return raw / 18.0
    return (raw + 320) / 10.0


@harness(prop="C14", target="geckolib.driver.accessor:GeckoTempStructAccessor._get_value", uses=["raw_word_contract"])
def temperature_presented_per_unit(raw: u16, celsius: bool):
    RAW[0] = raw
    s = TempStruct(units_case(celsius))
    a = GeckoTempStructAccessor(s, "SetpointG", 1, "ALL")
    ensures("decoded-as-raw/18-or-(raw+320)/10", a.value == spec_decode(raw, celsius))
    cover("celsius", celsius)
    cover("fahrenheit", not celsius)


@harness(prop="C14", target="geckolib.driver.accessor:GeckoTempStructAccessor._set_value", uses=["raw_word_contract"],
         timeout=300, cases="c14_units")
def representable_temperature_reads_back_exactly(unit, raw: u16):
    """write(read(raw)) == raw for all 65536 words, both units, blocking path"""
    celsius = unit["celsius"]
    RAW[0] = raw
    s = TempStruct(units_case(celsius))
    a = GeckoTempStructAccessor(s, "SetpointG", 1, "ALL")
    t = a.value
    a.value = t
    ensures("one-device-write", len(s.calls) == 1)
    (pos, length, w) = s.calls[0]
    ensures("addresses-the-item", both(pos == 1, length == 2))
    ensures("reads-back-exactly", w == raw)


@harness(prop="C14", target="geckolib.driver.accessor:GeckoTempStructAccessor.async_set_value", uses=["raw_word_contract"],
         timeout=300, cases="c14_units")
async def representable_temperature_reads_back_exactly_async(unit, raw: u16):
    celsius = unit["celsius"]
    RAW[0] = raw
    s = TempStruct(units_case(celsius))
    a = GeckoTempStructAccessor(s, "SetpointG", 1, "ALL")
    t = a.value
    await a.async_set_value(t)
    ensures("one-device-write", len(s.calls) == 1)
    (pos, length, w) = s.calls[0]
    ensures("addresses-the-item", both(pos == 1, length == 2))
    ensures("reads-back-exactly", w == raw)


def in_device_range(t, celsius):
    """temperatures whose word is 0..65535"""
    if celsius:
        return both(t >= 0.0, t <= 3640.0)
    return both(t >= 32.0, t <= 6585.0)


@harness(prop="C14", target="geckolib.driver.accessor:GeckoTempStructAccessor._set_value", uses=["raw_word_contract"],
         name="any_temperature_within_one_step", timeout=600, tier="thorough", cases="c14_units")
def any_temperature_within_one_step(unit, t: float):
    """any decimal temperature lands within one device step of what was asked"""
    celsius = unit["celsius"]
    requires(in_device_range(t, celsius))
    s = TempStruct(units_case(celsius))
    a = GeckoTempStructAccessor(s, "SetpointG", 1, "ALL")
    a.value = t
    ensures("one-device-write", len(s.calls) == 1)
    (pos, length, w) = s.calls[0]
    ensures("word-in-range", both(0 <= w, w <= 65535))
    ensures("within-one-step-below", spec_decode(w - 1, celsius) <= t)
    ensures("within-one-step-above", t <= spec_decode(w + 1, celsius))


@harness(prop="C14", target="geckolib.driver.accessor:GeckoTempStructAccessor._set_value", uses=["raw_word_contract"],
         name="ordering_preserved", timeout=600, tier="thorough", cases="c14_units")
def ordering_preserved(unit, t1: float, t2: float):
    celsius = unit["celsius"]
    requires(in_device_range(t1, celsius))
    requires(in_device_range(t2, celsius))
    requires(t1 <= t2)
    s = TempStruct(units_case(celsius))
    a = GeckoTempStructAccessor(s, "SetpointG", 1, "ALL")
    a.value = t1
    a.value = t2
    ensures("monotone", s.calls[0][2] <= s.calls[1][2])


@harness(prop="C14", target="geckolib.driver.accessor:GeckoTempStructAccessor._set_value", uses=["raw_word_contract"],
         name="sync_async_same_word")
async def sync_async_same_word(t: float, celsius: bool):
    requires(in_device_range(t, celsius))
    s1 = TempStruct(units_case(celsius))
    s2 = TempStruct(units_case(celsius))
    GeckoTempStructAccessor(s1, "SetpointG", 1, "ALL").value = t
    await GeckoTempStructAccessor(s2, "SetpointG", 1, "ALL").async_set_value(t)
    ensures("identical-device-writes", s1.calls == s2.calls)


# ------------------------------------------------------------------------------ heater
class Sensor:
    def __init__(self, state, is_on=None):
        self.state = state
        self.is_on = is_on


def heater(unit, cur, real, heating, cooling, target=0.0):
    h = new(GeckoWaterHeater)
    h._target_temperature_sensor = Sensor(target)
    h._temperature_unit_accessor = Units(unit)
    h._current_temperature_sensor = Sensor(cur)
    h._real_setpoint_sensor = Sensor(real)
    h._heating_action_sensor = heating
    h._cooling_action_sensor = cooling
    return h


@harness(prop="C14", target="geckolib.automation.heater:GeckoWaterHeater.temperature_unit")
def unit_symbol_and_limits_follow_setting(k: int):
    requires(both(0 <= k, k <= 2))
    k = concrete_cases(k, 0, 2)
    unit = ["C", "F", "Unknown"][k]
    h = heater(unit, 0.0, 0.0, None, None)
    if unit == "C":
        ensures("celsius-symbol-and-limits", both(h.temperature_unit == "°C", h.min_temp == 15, h.max_temp == 40))
    else:
        ensures("fahrenheit-symbol-and-limits", both(h.temperature_unit == "°F", h.min_temp == 59, h.max_temp == 104))
    # the accessor presents in the same unit the heater announces
    RAW[0] = 666
    cover("reached-end", True)


def spec_operation(has_h, has_c, h_on, c_on, cur, real):
    """decision table written from the statement"""
    if has_h and has_c:
        if h_on:
            return "Heating"
        if c_on:
            return "Cooling"
        return "Idle"
    if has_h and h_on:
        return "Heating"
    if has_c and c_on:
        return "Cooling"
    if cur < real:
        return "Heating"
    if cur > real:
        return "Cooling"
    return "Idle"


@harness(prop="C14", target="geckolib.automation.heater:GeckoWaterHeater.current_operation")
def operation_consistent_with_flags_and_temperatures(has_h: bool, has_c: bool, h_on: bool, c_on: bool, cur: float, real: float, target: float):
    hs = Sensor(None, h_on) if has_h else None
    cs = Sensor(None, c_on) if has_c else None
    h = heater("C", cur, real, hs, cs, target)
    ensures("operation-follows-decision-table", h.current_operation == spec_operation(has_h, has_c, h_on, c_on, cur, real))
    ensures("operation-is-one-of-three", h.current_operation in ("Heating", "Cooling", "Idle"))
    cover("both-flags", both(has_h, has_c))
    cover("no-flags-heating-by-temperature", both(not has_h, not has_c, cur < real))


# ------------------------------------------- the heating / cooling flags as the tables declare them
from geckolib.automation.sensors import GeckoBinarySensor
from contracts.c02_accessor import build as build_accessor, spec_length as flag_length, RecStruct as FlagStruct


class FlagFacade:
    unique_id = "SPA"
    name = "spa"
    _spa = None


@harness(prop="C14", cases="c14_flag_shapes", target="geckolib.automation.sensors:GeckoBinarySensor.is_on")
def operation_follows_the_flag_item_as_declared(shape, pos: int, block: bytes, cur: float, real: float):
    """the real binary sensor over every shape the Heating / CoolingDown items have in the shipped tables:
    any label other than '' / 'OFF' (or a true Bool) means the flag is on, and then the operation is the flag's"""
    requires(len(block) == 1024)
    requires(both(0 <= pos, pos + flag_length(shape) <= 1024))
    a = build_accessor(shape, FlagStruct(block), pos)
    s = GeckoBinarySensor(FlagFacade(), "Heating", a)
    # what the table DECLARES the item to be (its own bits only: width from MaxItems / Size, position from BitPos) --
    # not what the accessor object makes of it, so a neighbouring bit of the same byte can never turn the flag on
    from contracts.c02_accessor import spec_mask, word_at as spec_word
    field = spec_word(block, pos, flag_length(shape))
    if shape["bitpos"] is not None:
        field = (field & spec_mask(shape)) // (2 ** shape["bitpos"])
    if shape["cls"] == "GeckoBoolStructAccessor":
        want = field == 1
    else:
        labels = shape["items"]
        on_labels = [i for i in range(len(labels)) if labels[i] not in ("", "OFF")]
        want = either(field >= len(labels), *[field == i for i in on_labels]) if on_labels else field >= len(labels)
    ensures("accessor-reads-the-declared-field", (a.value == "Unknown") == (field >= len(shape["items"])) if shape["cls"] != "GeckoBoolStructAccessor" else a.value == want)
    ensures("flag-is-on-iff-its-item-says-so", s.is_on == want)
    h = heater("C", cur, real, s, None)
    ensures("heating-flag-on-means-heating", implies(want, h.current_operation == "Heating"))
    h2 = heater("C", cur, real, None, s)
    ensures("cooling-flag-on-means-cooling", implies(want, h2.current_operation == "Cooling"))
    cover("reached-end", True)


# ------------------------------------------- the sensor objects between the heater and the items never cache a reading
from geckolib.automation.sensors import GeckoSensor
from geckolib.driver.accessor import GeckoEnumStructAccessor
from geckolib.driver.spastruct import GeckoStructure


@harness(prop="C14", target="geckolib.automation.sensors:GeckoSensor.state", name="sensor_reading_follows_block_and_unit_at_every_read")
def sensor_reading_follows_block_and_unit_at_every_read(b1: bytes, b2: bytes, tpos: int):
    """read, then the block changes in ANY way (a partial update that touches only the unit byte, a refresh, a loaded snapshot),
    then read again: the sensor presents what the item decodes to NOW, in the unit that is set NOW (exact-rational floats: only
    'same as the item's own reading' is claimed here, the arithmetic is proved above)"""
    exact_rational_floats(True)
    requires(both(len(b1) == 1024, len(b2) == 1024, 2 <= tpos, tpos + 2 <= 1024))
    s = GeckoStructure(None)
    s.set_status_block(b1)
    units = GeckoEnumStructAccessor(s, "TempUnits", 0, None, ["F", "C"], None, None, "ALL")
    t = GeckoTempStructAccessor(s, "SetpointG", tpos, "ALL")
    s.accessors = {"TempUnits": units, "SetpointG": t}
    sensor = GeckoSensor(FlagFacade(), "Target", t, units)
    first = sensor.state
    ensures("first-reading-is-the-item's", first == t.value)
    s.replace_status_block_segment(0, b2)             # every watcher is told, as in the library
    ensures("later-reading-is-the-item's-current-one", sensor.state == t.value)
    ensures("unit-shown-is-the-current-one", sensor.unit_of_measurement == units.value)
    s.set_status_block(b1)                             # installed without any notification (snapshot load / reconnect)
    ensures("reading-after-a-silent-block-change-is-current-too", sensor.state == t.value)


@harness(prop="C14", target="geckolib.const:GeckoConstants", name="heater_reads_the_items_the_tables_declare")
def heater_reads_the_items_the_tables_declare():
    """the item names the heater looks up are the names the table modules use (a misspelt constant silently drops a flag)"""
    C = GeckoConstants
    ensures("flag-and-temperature-item-names",
            both(C.KEY_HEATING == "Heating", C.KEY_COOLINGDOWN == "CoolingDown", C.KEY_SETPOINT_G == "SetpointG",
                 C.KEY_REAL_SETPOINT_G == "RealSetPointG", C.KEY_DISPLAYED_TEMP_G == "DisplayedTempG", C.KEY_TEMP_UNITS == "TempUnits"))


# ------------------------------------------------------ the heater's constructor picks up every item the pack declares
class HeaterSpa:
    def __init__(self, accessors):
        self.accessors = accessors


class HeaterFacade:
    unique_id = "SPA"
    name = "spa"

    def __init__(self, accessors):
        self._spa = HeaterSpa(accessors)


class ItemStub(FlagStruct):
    pass


@harness(prop="C14", target="geckolib.automation.heater:GeckoWaterHeater.__init__", name="heater_uses_every_flag_the_pack_declares")
def heater_uses_every_flag_the_pack_declares(has_h: bool, has_c: bool, block: bytes):
    """packs declare the heating flag, the cooling flag, both (inXM) or neither: the heater watches exactly the declared ones"""
    from geckolib.driver.accessor import GeckoBoolStructAccessor
    requires(len(block) == 1024)
    s = FlagStruct(block)
    acc = {"TempUnits": GeckoEnumStructAccessor(s, "TempUnits", 0, None, ["F", "C"], None, None, "ALL"),
           "SetpointG": GeckoTempStructAccessor(s, "SetpointG", 2, "ALL"),
           "DisplayedTempG": GeckoTempStructAccessor(s, "DisplayedTempG", 4, None),
           "RealSetPointG": GeckoTempStructAccessor(s, "RealSetPointG", 6, None)}
    if has_h:
        acc["Heating"] = GeckoBoolStructAccessor(s, "Heating", 8, 1, None)
    if has_c:
        acc["CoolingDown"] = GeckoBoolStructAccessor(s, "CoolingDown", 8, 2, None)
    s.accessors = acc
    h = GeckoWaterHeater(HeaterFacade(acc))
    ensures("heating-flag-watched-iff-declared", (h._heating_action_sensor is not None) == has_h)
    ensures("cooling-flag-watched-iff-declared", (h._cooling_action_sensor is not None) == has_c)
    if has_h:
        ensures("heating-sensor-reads-the-heating-item", h._heating_action_sensor.accessor is acc["Heating"])
    if has_c:
        ensures("cooling-sensor-reads-the-cooling-item", h._cooling_action_sensor.accessor is acc["CoolingDown"])
    ensures("heater-present", h.is_present)
