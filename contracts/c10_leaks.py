"""C10 -- reset or exit at any point leaks no endpoint / task and has no late effects.

Typestate ghosts: Net.endpoints (every endpoint ever opened, with a `closed` flag) and
Net.tasks (every task ever created, with a `cancelled` flag).  The crash-point quantifier
("reset / exit injected at every await point") becomes an exceptional edge: a symbolic K
selects the suspension point at which asyncio.CancelledError is delivered.
  * discover: on EVERY exit (return or cancellation at any await) the endpoint it opened is closed
  * GeckoAsyncSpa connect -> (cancel at any await) -> disconnect: endpoint closed, SPA tasks
    cancelled, structure and observers emptied, protocol released
  * task coroutines: CancelledError in => CancelledError out (never swallowed)
Effects of datagrams already queued in other tasks are not explored.
"""
import asyncio

from verif_api import *
from geckolib.async_locator import GeckoAsyncLocator
from geckolib.async_spa import GeckoAsyncSpa
from geckolib.async_tasks import AsyncTasks
from geckolib.async_spa_manager import GeckoAsyncSpaMan
from geckolib.automation.async_facade import GeckoAsyncFacade
from geckolib.spa_state import GeckoSpaState
from geckolib.driver.udp_protocol_handler import GeckoUdpProtocolHandler
from geckolib.driver.protocol.version import GeckoVersionProtocolHandler
from geckolib.driver.protocol.unhandled import GeckoUnhandledProtocolHandler
from geckolib.driver.async_peekablequeue import AsyncPeekableQueue
from geckolib.spa_events import GeckoSpaEvent


class Net:
    endpoints = []
    tasks = []
    count = 0
    cancel_at = -1
    cancelled = False


class Transport:
    def __init__(self):
        self.closed = False

    def close(self):
        self.closed = True

    def sendto(self, data, dest):
        pass


class Fut:
    """asyncio.Future as far as the library uses it: a result can be set once"""

    def __init__(self):
        self._done = False

    def done(self):
        return self._done

    def set_result(self, r):
        if self._done:
            raise asyncio.InvalidStateError("invalid state")
        self._done = True


class Loop:
    def create_future(self):
        return Fut()

    async def create_datagram_endpoint(self, factory, **kwargs):
        suspension_point("create_datagram_endpoint")
        t = Transport()
        p = factory()
        p.connection_made(t)
        Net.endpoints.append(t)
        return (t, p)


class Task:
    def __init__(self, coro, name):
        self.coro = coro
        self.name = name
        self.cancelled = False

    def get_name(self):
        return self.name

    def cancel(self):
        self.cancelled = True

    def done(self):
        return self.cancelled


def create_task(coro, name=None):
    t = Task(coro, name)
    Net.tasks.append(t)
    return t


def maybe_cancel(what):
    """deliver CancelledError at the K-th suspension point (K symbolic: every await point is a crash point)"""
    i = Net.count
    Net.count = i + 1
    if Net.cancelled:
        return
    if Net.cancel_at == i:
        Net.cancelled = True
        cancel_here()


def arm(k):
    Net.endpoints = []
    Net.tasks = []
    Net.count = 0
    Net.cancel_at = k
    Net.cancelled = False
    asyncio.get_running_loop = lambda: Loop()
    asyncio.create_task = create_task
    set_suspend_hook(maybe_cancel)


def all_closed():
    ok = True
    for t in Net.endpoints:
        ok = both(ok, t.closed)
    return ok


def tasks_cancelled(prefix):
    ok = True
    for t in Net.tasks:
        if t.name.startswith(prefix):
            ok = both(ok, t.cancelled)
    return ok


async def events(event, **kwargs):
    suspension_point("client event handler")


# ---------------------------------------------------------------------------- discover
@loop_contract("geckolib.async_locator:GeckoAsyncLocator.discover", 0, header="while self.age < GeckoConfig.DISCOVERY_TIMEOUT_IN_SECONDS")
class discover_loop:
    @staticmethod
    def havoc(L):
        set_clock(fresh_time("now"))
        n = fresh_int("answered", 0, 1)
        n = concrete_cases(n, 0, 1)
        L.self._spas = ["spa"] * n
        L.self._has_found_spa = both(fresh_bool("found"), n > 0)
        Net.count = 1 if Net.count > 1 else Net.count      # suspension ordinal: 0 = endpoint creation, 1 = any poll sleep

    @staticmethod
    def inv(L):
        return both(len(Net.endpoints) == 1, not Net.endpoints[0].closed, clock_now() >= L.self._started)


@harness(prop="C10", target="geckolib.async_locator:GeckoAsyncLocator.discover", loops=["discover_loop"])
async def discovery_closes_its_endpoint_on_every_exit(k: int, has_addr: bool):
    requires(both(-1 <= k, k <= 1))
    k = concrete_cases(k, -1, 1)
    arm(k)
    loc = GeckoAsyncLocator(AsyncTasks(), events, spa_address="10.0.0.9" if has_addr else None, spa_identifier=None)
    cancelled = False
    try:
        await loc.discover()
    except asyncio.CancelledError:
        cancelled = True
    ensures("cancellation-is-not-swallowed", cancelled == Net.cancelled)
    ensures("every-endpoint-opened-by-discovery-is-closed", all_closed())
    ensures("helper-tasks-cancelled", tasks_cancelled("LOC:"))
    cover("cancelled-while-polling", both(cancelled, len(Net.endpoints) == 1))
    cover("normal-return", not cancelled)


# ------------------------------------------------------------------- spa connect / reset
class Reply:
    """what a delivered handshake reply carries"""
    en_build = 1
    en_major = 2
    en_minor = 3
    co_build = 4
    co_major = 5
    co_minor = 6
    channel = 5
    signal_strength = 60
    config_version = 53
    log_version = 53
    plateform_key = "inYT"


@summary("geckolib.driver.async_udp_protocol:GeckoAsyncUdpProtocol.get", name="engine_step",
         note="engine stand-in (C06): a suspension point; a reply or None")
async def engine_step(self, create_func, destination=None, retry_count=10):
    suspension_point("protocol.get")
    if fresh_bool("reply"):
        return Reply()
    return None


@summary("geckolib.driver.async_spastruct:GeckoAsyncStructure.get", name="transfer_step",
         note="transfer stand-in (C01): a suspension point; success or failure")
async def transfer_step(self, protocol, create_func, retry_count=10):
    suspension_point("struct.get")
    return fresh_bool("transferred")


class Descr:
    name = "spa"
    identifier = b"SPA1"
    destination = ("10.0.0.9", 10022)


class Watcher:
    def __call__(self, *args):
        pass


@harness(prop="C10", target="geckolib.async_spa:GeckoAsyncSpa.disconnect", uses=["engine_step", "transfer_step"],
         name="reset_at_any_point_of_the_handshake_leaks_nothing")
async def reset_at_any_point_of_the_handshake_leaks_nothing(k: int):
    """connect, cancelled at the k-th await (k = -1: runs to its end, whatever the outcome), then the reset path"""
    requires(both(-1 <= k, k <= 24))
    k = concrete_cases(k, -1, 24)
    arm(k)
    tm = AsyncTasks()
    spa = GeckoAsyncSpa(b"IOSx", Descr(), tm, events)
    spa.watch(Watcher())
    cancelled = False
    try:
        await spa.connect()
    except asyncio.CancelledError:
        cancelled = True
    requires(cancelled == (k >= 0))           # k beyond the last await of this path: not a crash point
    Net.cancelled = True                       # the reset itself is not interrupted
    m = new(PumpMan)
    m._tasks = tm._tasks
    m._spa_state = "whatever"
    m._spa_descriptors = []
    m._spa_identifier = None
    m._spa_name = None
    m._status_sensor = None
    m._facade = None
    m._spa = spa
    spa._event_handler = m._handle_event
    await m.async_reset()
    ensures("manager-lets-go-of-the-spa", m._spa is None)
    ensures("every-endpoint-of-the-abandoned-connection-is-closed", all_closed())
    ensures("at-most-one-endpoint-per-connection", len(Net.endpoints) <= 1)
    ensures("background-tasks-of-the-connection-are-cancelled", tasks_cancelled("SPA:"))
    ensures("connection-state-released", both(spa._protocol is None, spa._transport is None, not spa.is_connected, not spa.isopen))
    ensures("no-client-observer-left", both(not spa.has_observers, len(spa.struct.accessors) == 0))
    cover("cancelled-mid-handshake", both(cancelled, len(Net.tasks) > 0))
    cover("completed-handshake-then-reset", both(not cancelled, len(Net.tasks) == 7))


# ------------------------------------------------------------- cancellation propagates
class QProto:
    def __init__(self):
        self.queue = AsyncPeekableQueue()
        self.transport = Transport()
        self.isopen = True

    def queue_send(self, handler, destination=None):
        pass


async def slow_client(handler, sender):
    suspension_point("client callback")


class Hnd(GeckoVersionProtocolHandler):
    async def async_handle(self, received_bytes, sender):
        suspension_point("async_handle")


@loop_contract("geckolib.driver.udp_protocol_handler:GeckoUdpProtocolHandler.consume", 0, header="while True")
class consume_any_state:
    @staticmethod
    def havoc(L):
        q = L.protocol.queue
        q._queue.clear()
        if fresh_bool("has_datagram"):
            q._queue.append((b"AVERS\x01", ("10.0.0.9", 10022)))
        L.self._should_remove_handler = fresh_bool("remove")
        Net.count = 0

    @staticmethod
    def inv(L):
        return not Net.cancelled


@loop_contract("geckolib.driver.protocol.unhandled:GeckoUnhandledProtocolHandler.consume", 0, header="while True")
class unhandled_any_state:
    @staticmethod
    def havoc(L):
        q = L.protocol.queue
        q._queue.clear()
        if fresh_bool("has_datagram"):
            q._queue.append((b"XXXXX", ("10.0.0.9", 10022)))
        Net.count = 0

    @staticmethod
    def inv(L):
        return not Net.cancelled


@loop_contract("geckolib.async_locator:GeckoAsyncLocator._broadcast_loop", 0, header="while True")
class broadcast_any_state:
    @staticmethod
    def havoc(L):
        L.self._protocol = QProto() if fresh_bool("open") else None
        Net.count = 0

    @staticmethod
    def inv(L):
        return not Net.cancelled


@loop_contract("geckolib.async_tasks:AsyncTasks._tidy", 0, header="while True")
class tidy_any_state:
    @staticmethod
    def havoc(L):
        Net.count = 0

    @staticmethod
    def inv(L):
        return not Net.cancelled


@loop_contract("geckolib.async_spa_manager:GeckoAsyncSpaMan._sequence_pump", 0, header="while True")
class pump_any_state:
    @staticmethod
    def havoc(L):
        Net.count = 0

    @staticmethod
    def inv(L):
        return not Net.cancelled


@summary("geckolib.config:config_sleep", name="sleep_point", note="config_sleep is a suspension point")
async def sleep_point(delay):
    suspension_point("config_sleep")


@harness(prop="C10", target="geckolib.driver.udp_protocol_handler:GeckoUdpProtocolHandler.consume",
         uses=["sleep_point"],
         loops=["consume_any_state", "unhandled_any_state", "broadcast_any_state", "tidy_any_state", "pump_any_state"],
         name="task_coroutines_never_swallow_cancellation")
async def task_coroutines_never_swallow_cancellation(which: int, k: int):
    """cancellation delivered at the k-th await of one loop iteration, in any loop state"""
    requires(both(0 <= which, which <= 4, 0 <= k, k <= 3))
    which = concrete_cases(which, 0, 4)
    k = concrete_cases(k, 0, 3)
    arm(k)
    out = "returned"
    try:
        if which == 0:
            await Hnd(async_on_handled=slow_client).consume(QProto())
        elif which == 1:
            await GeckoUnhandledProtocolHandler().consume(QProto())
        elif which == 2:
            loc = GeckoAsyncLocator(AsyncTasks(), events)
            await loc._broadcast_loop(GeckoVersionProtocolHandler())
        elif which == 3:
            await AsyncTasks()._tidy()
        else:
            m = new(PumpMan)
            m._tasks = []
            m._spa_state = "not idle"
            m._spa_descriptors = None
            m._spa_identifier = None
            m._facade = None
            await m._sequence_pump()
    except asyncio.CancelledError:
        out = "cancelled"
    ensures("cancelled-task-terminates-with-CancelledError", implies(Net.cancelled, out == "cancelled"))
    cover("cancelled", Net.cancelled)


class PumpMan(GeckoAsyncSpaMan):
    async def handle_event(self, event, **kwargs):
        pass


# ------------------------------------------------------------------- recorded findings
class FSpa:
    is_responding_to_pings = True

    async def async_get_watercare(self):
        suspension_point("get watercare")
        return 1

    async def async_get_reminders(self):
        suspension_point("get reminders")
        return []


class Quiet:
    def change_watercare_mode(self, m):
        pass

    def change_reminders(self, r):
        pass


@loop_contract("geckolib.automation.async_facade:GeckoAsyncFacade._facade_update", 0, header="while True")
class facade_update_any_state:
    @staticmethod
    def havoc(L):
        Net.count = 0

    @staticmethod
    def inv(L):
        return not Net.cancelled


@harness(prop="C10", target="geckolib.automation.async_facade:GeckoAsyncFacade._facade_update", uses=["sleep_point"],
         loops=["facade_update_any_state"], name="facade_update_terminates_promptly_when_cancelled")
async def facade_update_terminates_promptly_when_cancelled(k: int):
    requires(both(0 <= k, k <= 2))
    k = concrete_cases(k, 0, 2)
    arm(k)
    f = new(GeckoAsyncFacade)
    f._spa = FSpa()
    f._water_care = Quiet()
    f._reminders_manager = Quiet()
    f._pumps = []
    f._blowers = []
    out = "returned"
    try:
        await f._facade_update()
    except asyncio.CancelledError:
        out = "cancelled"
    ensures("cancelled-task-terminates-with-CancelledError", implies(Net.cancelled, out == "cancelled"))
    if Net.cancelled and k < 2:
        known_finding("C10:facade-update-sleeps-after-cancel", True)
        ensures("no-further-await-after-cancellation", Net.count == k + 1)
    cover("cancelled-inside-the-update", both(Net.cancelled, k == 0))


async def gather(*tasks, **kw):
    suspension_point("gather")
    return [None for t in tasks]


class CSpa:
    def __init__(self):
        self.disconnected = 0

    async def disconnect(self):
        self.disconnected = self.disconnected + 1


@harness(prop="C10", target="geckolib.async_spa_manager:GeckoAsyncSpaMan.__aexit__", name="context_exit_releases_the_connection")
async def context_exit_releases_the_connection():
    arm(-1)
    asyncio.gather = gather
    m = new(PumpMan)
    m._tasks = []
    m.add_task(slow_client(None, None), "Sequence Pump", "SPAMAN")
    m.add_task(slow_client(None, None), "Ping loop", "SPA")
    m._spa_state = "whatever"
    m._spa_descriptors = []
    m._spa_identifier = None
    m._spa_name = None
    m._status_sensor = None
    m._facade = None
    spa = CSpa()
    m._spa = spa
    await m.__aexit__(None, None, None)
    ensures("every-task-of-the-manager-is-cancelled", tasks_cancelled(""))
    known_finding("C10:context-exit-does-not-disconnect", True)
    ensures("connected-spa-is-disconnected-on-context-exit", spa.disconnected == 1)


# -------------------------------------------- the automatic recovery reset cancels itself
class SuspendingMan(GeckoAsyncSpaMan):
    async def handle_event(self, event, **kwargs):
        suspension_point("client event handler")


class FacadeStub:
    def __init__(self):
        self.disconnected = 0

    async def disconnect(self):
        self.disconnected = self.disconnected + 1


def deliver_pending_self_cancellation(what):
    """the reset runs ON a task of the connection (the ping loop): once cancel_key_tasks('SPA') has cancelled that
    task, CancelledError is delivered at its next suspension point"""
    if Net.cancelled:
        return
    for t in Net.tasks:
        if t.name.startswith("SPA:") and t.cancelled:
            Net.cancelled = True
            cancel_here()


@harness(prop="C10", target="geckolib.async_spa:GeckoAsyncSpa.disconnect", name="recovery_reset_survives_its_own_cancellation")
async def recovery_reset_survives_its_own_cancellation(state: int):
    """ping loop -> RUNNING_PING_RECEIVED in an error state -> async_reset -> spa.disconnect: the connection must be
    released completely although the running task is among the ones being cancelled"""
    from geckolib.spa_state import GeckoSpaState
    from geckolib.driver.async_udp_protocol import GeckoAsyncUdpProtocol
    requires(both(0 <= state, state <= 2))
    st = [GeckoSpaState.ERROR_PING_MISSED, GeckoSpaState.ERROR_RF_FAULT, GeckoSpaState.ERROR_NEEDS_ATTENTION][concrete_cases(state, 0, 2)]
    arm(-1)
    set_suspend_hook(deliver_pending_self_cancellation)
    m = new(SuspendingMan)
    m._tasks = []
    m._spa_state = st
    m._spa_descriptors = []
    m._spa_identifier = None
    m._spa_name = None
    m._status_sensor = None
    m._facade = FacadeStub()
    spa = GeckoAsyncSpa(b"IOSx", Descr(), m, m._handle_event)
    t = Transport()
    Net.endpoints.append(t)
    spa._transport = t
    spa._protocol = GeckoAsyncUdpProtocol(Fut(), ("10.0.0.9", 10022))
    spa._protocol.connection_made(t)
    m._spa = spa
    m.add_task(slow_client(None, None), "Ping loop", "SPA")        # the task this very code runs on
    m.add_task(slow_client(None, None), "Refresh loop", "SPA")
    try:
        await m._handle_event(GeckoSpaEvent.RUNNING_PING_RECEIVED)
    except asyncio.CancelledError:
        pass
    ensures("reset-lands-in-idle-with-nothing-left", both(m._spa_state is GeckoSpaState.IDLE, m._spa is None, m._facade is None))
    ensures("every-endpoint-of-the-abandoned-connection-is-closed", all_closed())
    ensures("background-tasks-of-the-connection-are-cancelled", tasks_cancelled("SPA:"))
    ensures("connection-state-released", both(spa._protocol is None, spa._transport is None))


# ------------------------------------------------------ task registry: frame and exit
class Gathered:
    tasks = []


async def rec_gather(*tasks, **kw):
    Gathered.tasks = list(tasks)
    suspension_point("gather")
    return [None for t in tasks]


@harness(prop="C10", target="geckolib.async_tasks:AsyncTasks.cancel_key_tasks", name="cancelled_tasks_are_still_awaited_at_exit")
async def cancelled_tasks_are_still_awaited_at_exit(a: bool, b: bool, c: bool):
    arm(-1)
    asyncio.gather = rec_gather
    tm = AsyncTasks()
    keys = ["SPA" if a else "LOC", "SPA" if b else "FACADE", "SPA" if c else "SPAMAN"]
    for i in range(3):
        tm.add_task(slow_client(None, None), "task %d" % i, keys[i])
    before = list(tm._tasks)
    tm.cancel_key_tasks("SPA")
    for i in range(3):
        ensures("exactly-the-keyed-tasks-are-cancelled", before[i].cancelled == (keys[i] == "SPA"))
    ensures("cancelled-tasks-stay-registered-until-they-have-finished", tm._tasks == before)
    Gathered.tasks = []
    await tm.gather()
    ensures("exit-cancels-every-task", tasks_cancelled(""))
    ensures("exit-awaits-every-task-including-already-cancelled-ones", Gathered.tasks == before)


# ---------------------------------------- facade teardown silences every automation object
from geckolib.driver.observable import Observable


class ClientObserver:
    def __init__(self):
        self.calls = 0

    def __call__(self, *args):
        self.calls += 1


class Dev(Observable):
    def __init__(self, key):
        Observable.__init__(self)
        self.key = key


@harness(prop="C10", target="geckolib.automation.async_facade:GeckoAsyncFacade.disconnect",
         bounded="device lists of 0..2 pumps / blowers / lights / sensors / binary sensors (concrete Python lists)")
async def facade_teardown_leaves_no_observer_on_any_device(np: int, nb: int, nl: int, ns: int, nbs: int):
    """after the teardown no automation object of the abandoned facade can call back into the client -- whoever
    registered the observer (the facade itself or the client application)"""
    requires(both(0 <= np, np <= 2, 0 <= nb, nb <= 1, 0 <= nl, nl <= 1, 0 <= ns, ns <= 2, 0 <= nbs, nbs <= 2))
    np = concrete_cases(np, 0, 2)
    nb = concrete_cases(nb, 0, 1)
    nl = concrete_cases(nl, 0, 1)
    ns = concrete_cases(ns, 0, 2)
    nbs = concrete_cases(nbs, 0, 2)
    arm(-1)
    tm = AsyncTasks()
    tm.add_task(None, "Facade update", "FACADE")
    tm.add_task(None, "Ping loop", "SPA")
    f = new(GeckoAsyncFacade)
    f._observers = []
    f._taskman = tm
    f._pumps = [Dev("P%d" % i) for i in range(np)]
    f._blowers = [Dev("BL")] * nb
    f._lights = [Dev("LI")] * nl
    f._sensors = [Dev("S%d" % i) for i in range(ns)]
    f._binary_sensors = [Dev("B%d" % i) for i in range(nbs)]
    f._water_heater = Dev("HEATER")
    f._water_care = Dev("WATERCARE")
    f._reminders_manager = Dev("REMINDERS")
    f._keypad = Dev("KEYPAD")
    f._ecomode = Dev("ECON")
    client = ClientObserver()
    devices = list(f.all_automation_devices)
    for d in devices:
        d.watch(f._on_change)                       # what the constructor installs
        d.watch(client)                             # what a client application installs
    for d in f.all_config_change_devices:
        d.watch(f._on_config_device_change)
    await f.disconnect()
    for d in devices:
        ensures("no-observer-left-on-any-automation-object", not d.has_observers)
    for d in devices:
        d._on_change(d, 1, 2)                       # a late datagram of the abandoned connection changes a value
    ensures("late-change-reaches-no-client-observer", client.calls == 0)
    ensures("facade-tasks-cancelled-and-only-those", both(tasks_cancelled("FACADE:"), not Net.tasks[1].cancelled))
    cover("several-devices", len(devices) > 8)


# ------------------------------------------------- late datagrams / timers of the abandoned connection
from geckolib.driver.accessor import GeckoByteStructAccessor, GeckoWordStructAccessor


class Changes:
    def __init__(self, changes):
        self.changes = changes


@harness(prop="C10", target="geckolib.async_spa:GeckoAsyncSpa.disconnect", name="late_datagram_or_timer_after_disconnect_reaches_no_observer")
async def late_datagram_or_timer_after_disconnect_reaches_no_observer(pos: int, word: bytes, p1: int, p2: int):
    """a partial update that was already queued, and the ping loop's own change notification, arriving after the
    connection was abandoned: whatever they change, no observer of the old connection (spa or items) is called"""
    requires(both(0 <= pos, pos + 2 <= 1024, len(word) == 2, 0 <= p1, p1 <= 1023, 0 <= p2, p2 + 2 <= 1024))
    arm(-1)
    tm = AsyncTasks()
    spa = GeckoAsyncSpa(b"IOSx", Descr(), tm, events)
    on_spa = ClientObserver()
    on_item = ClientObserver()
    spa.watch(on_spa)
    a = GeckoByteStructAccessor(spa.struct, "A", p1, "ALL")
    b = GeckoWordStructAccessor(spa.struct, "B", p2, "ALL")
    a.watch(on_item)
    b.watch(on_item)
    spa.struct.accessors = {"A": a, "B": b}
    spa._is_connected = True
    await spa.disconnect()
    ensures("structure-forgets-its-items-and-spa-its-observers", both(len(spa.struct.accessors) == 0, not spa.has_observers))
    await spa._async_on_partial_status_update(Changes([(pos, word)]), ("10.0.0.9", 10022))
    spa._on_change()
    ensures("late-update-calls-no-observer-of-the-abandoned-connection", both(on_spa.calls == 0, on_item.calls == 0))
    ensures("abandoned-connection-stays-disconnected", both(not spa.is_connected, not spa.isopen))


# ------------------------------- the cancellation primitive with finished-but-untidied tasks in the registry (shared with C15)
class RegTask:
    def __init__(self, name, finished):
        self.name = name
        self.finished = finished
        self.cancelled = False

    def get_name(self):
        return self.name

    def cancel(self):
        self.cancelled = True

    def done(self):
        return self.finished


@harness(prop="C10", target="geckolib.async_tasks:AsyncTasks.cancel_key_tasks", name="keyed_cancellation_reaches_every_live_task_of_the_domain",
         bounded="task registries of 0..4 entries (concrete Python list); key and finished-flag of each entry symbolic")
def keyed_cancellation_reaches_every_live_task_of_the_domain(n: int, k0: bool, k1: bool, k2: bool, k3: bool, f0: bool, f1: bool, f2: bool, f3: bool):
    """a long-lived manager's registry also holds tasks of earlier runs that have finished but are not tidied yet"""
    requires(both(0 <= n, n <= 4))
    n = concrete_cases(n, 0, 4)
    is_loc = [k0, k1, k2, k3]
    fin = [f0, f1, f2, f3]
    tm = AsyncTasks()
    # the other domain's name STARTS with the cancelled key (as SPAMAN starts with SPA): only the key up to the colon counts
    tasks = [RegTask("LOC:helper" if is_loc[i] else "LOCMAN:other", fin[i]) for i in range(n)]
    tm._tasks = list(tasks)
    tm.cancel_key_tasks("LOC")
    for i in range(n):
        ensures("every-live-helper-task-is-cancelled", implies(both(is_loc[i], not fin[i]), tasks[i].cancelled))
        ensures("tasks-of-other-domains-are-left-alone", implies(not is_loc[i], not tasks[i].cancelled))
    cover("finished-task-in-front-of-a-helper", both(n >= 2, f0, k1, not f1))


# ------------------------------------- reset from ANOTHER task while the connect phase is in flight (not cancelled)
class Other:
    man = None
    at = -1
    count = 0
    done = False


async def reset_from_another_task(what):
    """at the k-th suspension point of the handshake another task (user, reconnect button, recovery) resets the manager;
    the handshake coroutine is NOT cancelled by that and resumes afterwards"""
    i = Other.count
    Other.count = i + 1
    if i == Other.at and not Other.done:
        Other.done = True
        await Other.man.async_reset()


@summary("geckolib.automation.async_facade:GeckoAsyncFacade.__init__", name="facade_stand_in", note="stand-in constructor (C11 proves the real one)")
def facade_stand_in(self, spa, taskman, **kwargs):
    self._spa = spa
    self._taskman = taskman


@harness(prop="C10", target="geckolib.async_spa_manager:GeckoAsyncSpaMan.async_connect_to_spa", uses=["engine_step", "transfer_step", "facade_stand_in"],
         name="reset_from_another_task_during_the_handshake_leaks_nothing")
async def reset_from_another_task_during_the_handshake_leaks_nothing(k: int):
    """the real connect phase (async_connect_to_spa -> GeckoAsyncSpa.connect) with the engine and the transfer as stand-ins"""
    requires(both(0 <= k, k <= 26))
    k = concrete_cases(k, 0, 26)
    arm(-1)
    m = new(PumpMan)
    m._tasks = []
    m._client_id = b"IOSx"
    m._spa_state = GeckoSpaState.LOCATED_SPAS
    m._spa_descriptors = []
    m._spa_address = None
    m._spa_identifier = "SPA1"
    m._spa_name = "spa"
    m._status_sensor = None
    m._reconnect_button = None
    m._ping_sensor = None
    m._radio_sensor = None
    m._channel_sensor = None
    m._facade = None
    m._spa = None
    Other.man = m
    Other.at = k
    Other.count = 0
    Other.done = False
    set_suspend_hook(reset_from_another_task)
    raised = False
    try:
        await m.async_connect_to_spa(Descr())
    except asyncio.CancelledError:
        raised = True
    except Exception:
        raised = True
    requires(Other.done)                    # k beyond the last await of this path: no reset happened, not this harness's case
    set_suspend_hook(None)
    if raised:
        await m.async_reset()               # what the sequence pump does when the phase raises
    if m._facade is None:
        # the attempt was abandoned: whatever it opened or started is released, whichever await the reset landed on
        if m._spa is not None:
            await m.async_reset()
        ensures("every-endpoint-of-the-abandoned-connection-is-closed", all_closed())
        ensures("background-tasks-of-the-abandoned-connection-are-cancelled", tasks_cancelled("SPA:"))
    ensures("at-most-one-endpoint-per-attempt", len(Net.endpoints) <= 1)
    cover("reset-before-the-first-request", k <= 2)


# ------------------------------------------------------- a socket error before the reset does not get in its way
@harness(prop="C10", target="geckolib.driver.async_udp_protocol:GeckoAsyncUdpProtocol.error_received", uses=["engine_step", "transfer_step"],
         name="reset_after_a_socket_error_still_releases_everything")
async def reset_after_a_socket_error_still_releases_everything(errors: int):
    """the OS reports a failed send (error_received; the socket stays open) any number of times, then the connection is reset"""
    requires(both(0 <= errors, errors <= 2))
    errors = concrete_cases(errors, 0, 2)
    arm(-1)
    tm = AsyncTasks()
    spa = GeckoAsyncSpa(b"IOSx", Descr(), tm, events)
    on_spa = ClientObserver()
    spa.watch(on_spa)
    await spa.connect()
    for i in range(errors):
        if spa._protocol is not None:
            spa._protocol.error_received(OSError("network is unreachable"))
    await spa.disconnect()
    ensures("every-endpoint-of-the-abandoned-connection-is-closed", all_closed())
    ensures("background-tasks-of-the-connection-are-cancelled", tasks_cancelled("SPA:"))
    ensures("connection-state-released", both(spa._protocol is None, spa._transport is None, not spa.is_connected, not spa.has_observers))
