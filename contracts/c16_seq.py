"""C16 -- sequence numbers: requests cycle 1..191, commands 192..255, never 0.

Contracts on the real `get_and_increment_sequence_counter` of both connection classes.
The representation invariant INV(p, c) is  0 <= p <= 191  and  191 <= c <= 255
(p == 0 / c == 191: nothing handed out yet).  It holds after __init__ and is preserved
by every call, so the postconditions hold in every reachable counter state -- by
induction, not by enumerating the 192 x 65 states.
"""
import threading

from verif_api import *
from geckolib.driver.async_udp_protocol import GeckoAsyncUdpProtocol
from geckolib.driver.udp_socket import GeckoUdpSocket


def seq_inv(p, c):
    return both(0 <= p, p <= 191, 191 <= c, c <= 255)


def succ_protocol(p):
    """successor in the protocol cycle 1..191 (0 = none handed out yet)"""
    return ite(p == 191, 1, p + 1)


def succ_command(c):
    """successor in the command cycle 192..255 (191 = none handed out yet)"""
    return ite(c == 255, 192, c + 1)


def seq_post(p, c, command, result, p2, c2):
    """postcondition written from the property statement"""
    if command:
        return both(result == succ_command(c), c2 == result, p2 == p, 192 <= result, result <= 255)
    return both(result == succ_protocol(p), p2 == result, c2 == c, 1 <= result, result <= 191)


# ------------------------------------------------------------------------------ async
@harness(prop="C16", target="geckolib.driver.async_udp_protocol:GeckoAsyncUdpProtocol.__init__")
def async_init_establishes_invariant():
    proto = GeckoAsyncUdpProtocol(None, None)
    ensures("inv-after-init", seq_inv(proto._sequence_counter_protocol, proto._sequence_counter_command))
    ensures("nothing-handed-out-yet", both(proto._sequence_counter_protocol == 0, proto._sequence_counter_command == 191))


@harness(prop="C16", target="geckolib.driver.async_udp_protocol:GeckoAsyncUdpProtocol.get_and_increment_sequence_counter")
def async_counter_step(p: int, c: int, command: bool):
    requires(seq_inv(p, c))
    proto = new(GeckoAsyncUdpProtocol, _sequence_counter_protocol=p, _sequence_counter_command=c)
    r = proto.get_and_increment_sequence_counter(command)
    p2 = proto._sequence_counter_protocol
    c2 = proto._sequence_counter_command
    ensures("successor-in-own-cycle", seq_post(p, c, command, r, p2, c2))
    ensures("never-zero", r != 0)
    ensures("inv-preserved", seq_inv(p2, c2))
    cover("wraps-protocol", both(not command, p == 191))
    cover("wraps-command", both(command, c == 255))
    cover("first-command", both(command, c == 191))


# --------------------------------------------------------------------------- threaded
@harness(prop="C16", target="geckolib.driver.udp_socket:GeckoUdpSocket.__init__")
def sync_init_establishes_invariant():
    sock = GeckoUdpSocket()
    ensures("inv-after-init", seq_inv(sock._sequence_counter_protocol, sock._sequence_counter_command))
    ensures("nothing-handed-out-yet", both(sock._sequence_counter_protocol == 0, sock._sequence_counter_command == 191))


@harness(prop="C16", target="geckolib.driver.udp_socket:GeckoUdpSocket.get_and_increment_sequence_counter")
def sync_counter_step(p: int, c: int, command: bool):
    requires(seq_inv(p, c))
    sock = new(GeckoUdpSocket, _sequence_counter_protocol=p, _sequence_counter_command=c, _lock=threading.Lock())
    r = sock.get_and_increment_sequence_counter(command)
    p2 = sock._sequence_counter_protocol
    c2 = sock._sequence_counter_command
    ensures("successor-in-own-cycle", seq_post(p, c, command, r, p2, c2))
    ensures("never-zero", r != 0)
    ensures("inv-preserved", seq_inv(p2, c2))
    cover("wraps-protocol", both(not command, p == 191))
    cover("wraps-command", both(command, c == 255))


# ---------------------------------------------- callee contract used by every call site
@summary("geckolib.driver.async_udp_protocol:GeckoAsyncUdpProtocol.get_and_increment_sequence_counter",
         name="seq_async_contract")
def seq_async_contract(self, command):
    p = self._sequence_counter_protocol
    c = self._sequence_counter_command
    requires(seq_inv(p, c))
    r = fresh_int("seq")
    p2 = fresh_int("seq_p")
    c2 = fresh_int("seq_c")
    ensures("contract", seq_post(p, c, command, r, p2, c2))
    self._sequence_counter_protocol = p2
    self._sequence_counter_command = c2
    return r
