"""C16 -- sequence numbers: requests cycle 1..191, commands 192..255, never 0.

Contracts on the real `get_and_increment_sequence_counter` of both connection classes.
The representation invariant INV(p, c) is  0 <= p <= 191  and  191 <= c <= 255
(p == 0 / c == 191: nothing handed out yet).  It holds after __init__ and is preserved
by every call, so the postconditions hold in every reachable counter state -- by
induction, not by enumerating the 192 x 65 states.
"""
import threading

from verif_api import *
from geckolib.driver.async_udp_protocol import GeckoAsyncUdpProtocol
from geckolib.driver.udp_socket import GeckoUdpSocket


def seq_inv(p, c):
    return both(0 <= p, p <= 191, 191 <= c, c <= 255)


def succ_protocol(p):
    """successor in the protocol cycle 1..191 (0 = none handed out yet)"""
    return ite(p == 191, 1, p + 1)


def succ_command(c):
    """successor in the command cycle 192..255 (191 = none handed out yet)"""
    return ite(c == 255, 192, c + 1)


def seq_post(p, c, command, result, p2, c2):
    """postcondition written from the property statement"""
    if command:
        return both(result == succ_command(c), c2 == result, p2 == p, 192 <= result, result <= 255)
    return both(result == succ_protocol(p), p2 == result, c2 == c, 1 <= result, result <= 191)


# ------------------------------------------------------------------------------ async
@harness(prop="C16", target="geckolib.driver.async_udp_protocol:GeckoAsyncUdpProtocol.__init__")
def async_init_establishes_invariant():
    proto = GeckoAsyncUdpProtocol(None, None)
    ensures("inv-after-init", seq_inv(proto._sequence_counter_protocol, proto._sequence_counter_command))
    ensures("nothing-handed-out-yet", both(proto._sequence_counter_protocol == 0, proto._sequence_counter_command == 191))


@harness(prop="C16", target="geckolib.driver.async_udp_protocol:GeckoAsyncUdpProtocol.get_and_increment_sequence_counter")
def async_counter_step(p: int, c: int, command: bool):
    requires(seq_inv(p, c))
    proto = new(GeckoAsyncUdpProtocol, _sequence_counter_protocol=p, _sequence_counter_command=c)
    r = proto.get_and_increment_sequence_counter(command)
    p2 = proto._sequence_counter_protocol
    c2 = proto._sequence_counter_command
    ensures("successor-in-own-cycle", seq_post(p, c, command, r, p2, c2))
    ensures("never-zero", r != 0)
    ensures("inv-preserved", seq_inv(p2, c2))
    cover("wraps-protocol", both(not command, p == 191))
    cover("wraps-command", both(command, c == 255))
    cover("first-command", both(command, c == 191))


@harness(prop="C16", target="geckolib.driver.async_udp_protocol:GeckoAsyncUdpProtocol.__init__",
         name="async_connections_count_independently_from_the_start")
def async_connections_count_independently_from_the_start():
    """observed through the public call only (no assumption on how the counters are stored): every connection
    starts its two cycles at 1 and 192, and drawing on one connection never moves another one's counters"""
    a = GeckoAsyncUdpProtocol(None, None)
    ensures("first-request-number-is-1", a.get_and_increment_sequence_counter(False) == 1)
    ensures("first-command-number-is-192", a.get_and_increment_sequence_counter(True) == 192)
    ensures("second-request-number-is-2", a.get_and_increment_sequence_counter(False) == 2)
    b = GeckoAsyncUdpProtocol(None, None)
    ensures("a-new-connection-starts-again-at-1", b.get_and_increment_sequence_counter(False) == 1)
    ensures("a-new-connection-starts-again-at-192", b.get_and_increment_sequence_counter(True) == 192)
    ensures("the-first-connection-is-unaffected", both(a.get_and_increment_sequence_counter(False) == 3,
                                                      a.get_and_increment_sequence_counter(True) == 193))


# --------------------------------------------------------------------------- threaded
@harness(prop="C16", target="geckolib.driver.udp_socket:GeckoUdpSocket.__init__",
         name="sync_connections_count_independently_from_the_start")
def sync_connections_count_independently_from_the_start():
    a = GeckoUdpSocket()
    ensures("first-request-number-is-1", a.get_and_increment_sequence_counter(False) == 1)
    ensures("first-command-number-is-192", a.get_and_increment_sequence_counter(True) == 192)
    ensures("second-request-number-is-2", a.get_and_increment_sequence_counter(False) == 2)
    b = GeckoUdpSocket()
    ensures("a-new-connection-starts-again-at-1", b.get_and_increment_sequence_counter(False) == 1)
    ensures("a-new-connection-starts-again-at-192", b.get_and_increment_sequence_counter(True) == 192)
    ensures("the-first-connection-is-unaffected", both(a.get_and_increment_sequence_counter(False) == 3,
                                                      a.get_and_increment_sequence_counter(True) == 193))


@harness(prop="C16", target="geckolib.driver.udp_socket:GeckoUdpSocket.__init__")
def sync_init_establishes_invariant():
    sock = GeckoUdpSocket()
    ensures("inv-after-init", seq_inv(sock._sequence_counter_protocol, sock._sequence_counter_command))
    ensures("nothing-handed-out-yet", both(sock._sequence_counter_protocol == 0, sock._sequence_counter_command == 191))


@harness(prop="C16", target="geckolib.driver.udp_socket:GeckoUdpSocket.get_and_increment_sequence_counter")
def sync_counter_step(p: int, c: int, command: bool):
    requires(seq_inv(p, c))
    sock = new(GeckoUdpSocket, _sequence_counter_protocol=p, _sequence_counter_command=c, _lock=threading.Lock())
    r = sock.get_and_increment_sequence_counter(command)
    p2 = sock._sequence_counter_protocol
    c2 = sock._sequence_counter_command
    ensures("successor-in-own-cycle", seq_post(p, c, command, r, p2, c2))
    ensures("never-zero", r != 0)
    ensures("inv-preserved", seq_inv(p2, c2))
    cover("wraps-protocol", both(not command, p == 191))
    cover("wraps-command", both(command, c == 255))


# ---------------------------------------------- callee contract used by every call site
@summary("geckolib.driver.async_udp_protocol:GeckoAsyncUdpProtocol.get_and_increment_sequence_counter",
         name="seq_async_contract")
def seq_async_contract(self, command):
    p = self._sequence_counter_protocol
    c = self._sequence_counter_command
    requires(seq_inv(p, c))
    r = fresh_int("seq")
    p2 = fresh_int("seq_p")
    c2 = fresh_int("seq_c")
    ensures("contract", seq_post(p, c, command, r, p2, c2))
    self._sequence_counter_protocol = p2
    self._sequence_counter_command = c2
    return r


# ======================================================= every request kind on the wire
# Each call site is executed with the REAL counter (any state satisfying the invariant)
# and the REAL request factory; the sequence byte found in the message bytes must lie in
# the range of its kind: pack commands 192..255, every other request 1..191.
from geckolib.async_spa import GeckoAsyncSpa
from geckolib.spa import GeckoSpa
from geckolib.driver.protocol.statusblock import (
    GeckoPartialStatusBlockProtocolHandler, GeckoAsyncPartialStatusBlockProtocolHandler,
)
from geckolib.automation.watercare import GeckoWaterCare
from geckolib.automation.reminders import GeckoReminders


class Sent:
    requests = []


@summary("geckolib.driver.async_udp_protocol:GeckoAsyncUdpProtocol.get", name="engine_builds_once",
         note="engine stand-in (proved in C06): builds the request once")
async def engine_builds_once(self, create_func, destination=None, retry_count=10):
    req = create_func()
    Sent.requests.append(req)
    return req


class ADesc:
    destination = ("10.0.0.9", 10022)
    identifier = b"SPAid"
    client_identifier = b"IOSclient"


class LogClass:
    begin = 256
    end = 479


async def no_event(event, **kwargs):
    return None


def async_spa(p, c):
    spa = new(GeckoAsyncSpa)
    spa._observers = []
    spa.descriptor = ADesc()
    spa.client_id = b"IOSclient"
    spa._is_connected = True
    spa._last_ping = clock_now()
    spa._event_handler = no_event
    spa.pack_type = 6
    spa.config_version = 1
    spa.log_version = 1
    spa.log_class = LogClass()
    spa._protocol = new(GeckoAsyncUdpProtocol, _sequence_counter_protocol=p, _sequence_counter_command=c)
    return spa


def seq_byte(req, verb):
    """the sequence number as it appears on the wire: first byte after the 5-letter verb"""
    content = req._content
    return ite(content[0:5] == verb, byte_at(content, 5), -1)


def protocol_range(s):
    return both(1 <= s, s <= 191)


def command_range(s):
    return both(192 <= s, s <= 255)


@harness(prop="C16", target="geckolib.async_spa:GeckoAsyncSpa._get_version_handler_func", uses=["engine_builds_once"],
         name="async_request_kinds_use_their_range")
async def async_request_kinds_use_their_range(p: int, c: int, which: int):
    requires(seq_inv(p, c))
    requires(both(0 <= which, which <= 9))
    which = concrete_cases(which, 0, 9)
    spa = async_spa(p, c)
    Sent.requests = []
    if which == 0:
        r = spa._get_version_handler_func()
        ensures("version-request-in-protocol-range", protocol_range(seq_byte(r, b"AVERS")))
    elif which == 1:
        r = spa._get_channel_handler_func()
        ensures("channel-request-in-protocol-range", protocol_range(seq_byte(r, b"CURCH")))
    elif which == 2:
        r = spa._get_config_file_handler_func()
        ensures("config-file-request-in-protocol-range", protocol_range(seq_byte(r, b"SFILE")))
    elif which == 3:
        r = spa._get_status_block_handler_func()
        ensures("status-request-in-protocol-range", protocol_range(seq_byte(r, b"STATU")))
    elif which == 4:
        r = spa._get_watercare_handler_func()
        ensures("watercare-request-in-protocol-range", protocol_range(seq_byte(r, b"GETWC")))
    elif which == 5:
        r = spa._get_reminders_handler_func()
        ensures("reminders-request-in-protocol-range", protocol_range(seq_byte(r, b"REQRM")))
    elif which == 6:
        await spa.async_set_watercare(1)
        ensures("set-watercare-in-protocol-range", protocol_range(seq_byte(Sent.requests[0], b"SETWC")))
    elif which == 7:
        await spa._on_async_set_value(300, 1, 5)
        ensures("set-value-command-in-command-range", command_range(seq_byte(Sent.requests[0], b"SPACK")))
    elif which == 8:
        await spa.async_press(3)
        ensures("key-press-command-in-command-range", command_range(seq_byte(Sent.requests[0], b"SPACK")))
    else:
        sock = new(GeckoAsyncUdpProtocol, _sequence_counter_protocol=p, _sequence_counter_command=c)
        sock.transport = None
        acks = []
        sock.queue_send = lambda h, d=None: acks.append(h)
        h = GeckoAsyncPartialStatusBlockProtocolHandler(sock)
        await h.async_handle(b"STATP\x00", ("10.0.0.9", 10022, b"SPAid", b"IOSclient"))
        ensures("partial-update-ack-in-protocol-range", both(len(acks) == 1, protocol_range(seq_byte(acks[0], b"STATQ"))))
    ensures("counters-keep-their-invariant", seq_inv(spa._protocol._sequence_counter_protocol, spa._protocol._sequence_counter_command))
    cover("reached-end", True)


class Queue:
    sent = []
    added = []


def sync_spa(p, c):
    spa = new(GeckoSpa)
    spa._lock = threading.Lock()
    spa._sequence_counter_protocol = p
    spa._sequence_counter_command = c
    spa._send_handlers = []
    spa._receive_handlers = []
    spa.descriptor = ADesc()
    spa.pack_type = 6
    spa.config_version = 1
    spa.log_version = 1
    spa._is_connected = True
    spa.new_log_class = LogClass()
    return spa


def last_sent(spa):
    return spa._send_handlers[len(spa._send_handlers) - 1][0]


@harness(prop="C16", target="geckolib.spa:GeckoSpa._on_set_value", name="sync_request_kinds_use_their_range")
def sync_request_kinds_use_their_range(p: int, c: int, which: int):
    requires(seq_inv(p, c))
    requires(both(0 <= which, which <= 6))
    which = concrete_cases(which, 0, 6)
    spa = sync_spa(p, c)
    sender = ("10.0.0.9", 10022, b"SPAid", b"IOSclient")
    if which == 0:
        spa.press(3)
        ensures("key-press-command-in-command-range", command_range(seq_byte(last_sent(spa), b"SPACK")))
    elif which == 1:
        spa._on_set_value(300, 1, 5)
        ensures("set-value-command-in-command-range", command_range(seq_byte(last_sent(spa), b"SPACK")))
    elif which == 2:
        spa.struct = StructStub()
        spa.refresh()
        ensures("status-request-in-protocol-range", protocol_range(seq_byte(spa.struct.request, b"STATU")))
    elif which == 3:
        spa._on_version_received(VersionStub(), sender)
        ensures("channel-request-in-protocol-range", protocol_range(seq_byte(last_sent(spa), b"CURCH")))
    elif which == 4:
        spa._on_channel_received(ChannelStub(), sender)
        ensures("config-file-request-in-protocol-range", protocol_range(seq_byte(last_sent(spa), b"SFILE")))
    elif which == 5:
        wc = new(GeckoWaterCare)
        wc._observers = []
        wc._spa = spa
        wc.active_mode = None
        wc._water_care_handler = None
        wc.set_mode(2)
        ensures("set-watercare-in-protocol-range", protocol_range(seq_byte(last_sent(spa), b"SETWC")))
        wc.update()
        ensures("watercare-request-in-protocol-range", protocol_range(seq_byte(last_sent(spa), b"GETWC")))
    else:
        rm = new(GeckoReminders)
        rm._spa = spa
        rm.update()
        ensures("reminders-request-in-protocol-range", protocol_range(seq_byte(last_sent(spa), b"REQRM")))
        h = GeckoPartialStatusBlockProtocolHandler(spa)
        h.handle(b"STATP\x00", sender)
        ensures("partial-update-ack-in-protocol-range", protocol_range(seq_byte(last_sent(spa), b"STATQ")))
    ensures("counters-keep-their-invariant", seq_inv(spa._sequence_counter_protocol, spa._sequence_counter_command))
    cover("reached-end", True)


class StructStub:
    request = None

    def retry_request(self, socket_, request, sender):
        self.request = request


class VersionStub:
    en_build = 1
    en_major = 2
    en_minor = 3
    co_build = 4
    co_major = 5
    co_minor = 6


class ChannelStub:
    channel = 5
    signal_strength = 50


# --------------------------------------------- the sequence BYTE on the wire, for every number the counters can hand out
@harness(prop="C16", target="geckolib.driver.protocol.getchannel:GeckoGetChannelProtocolHandler.request", name="every_request_kind_puts_its_number_into_one_byte")
def every_request_kind_puts_its_number_into_one_byte():
    """ground over the whole range of both cycles: the number handed out is exactly the byte that follows the verb (one byte,
    no text encoding), for every request factory"""
    from geckolib.driver.protocol.version import GeckoVersionProtocolHandler
    from geckolib.driver.protocol.getchannel import GeckoGetChannelProtocolHandler
    from geckolib.driver.protocol.configfile import GeckoConfigFileProtocolHandler
    from geckolib.driver.protocol.statusblock import GeckoStatusBlockProtocolHandler
    from geckolib.driver.protocol.watercare import GeckoWatercareProtocolHandler
    from geckolib.driver.protocol.reminders import GeckoRemindersProtocolHandler
    from geckolib.driver.protocol.firmware import GeckoUpdateFirmwareProtocolHandler
    from geckolib.driver.protocol.packcommand import GeckoPackCommandProtocolHandler
    p = (0, 0, b"d", b"s")
    for seq in range(1, 256):
        made = [(b"AVERS", GeckoVersionProtocolHandler.request(seq, parms=p)), (b"CURCH", GeckoGetChannelProtocolHandler.request(seq, parms=p)),
                (b"SFILE", GeckoConfigFileProtocolHandler.request(seq, parms=p)), (b"STATU", GeckoStatusBlockProtocolHandler.full_request(seq, parms=p)),
                (b"STATU", GeckoStatusBlockProtocolHandler.request(seq, 256, 480, parms=p)), (b"GETWC", GeckoWatercareProtocolHandler.request(seq, parms=p)),
                (b"SETWC", GeckoWatercareProtocolHandler.set(seq, 1, parms=p)), (b"REQRM", GeckoRemindersProtocolHandler.request(seq, parms=p)),
                (b"UPDTS", GeckoUpdateFirmwareProtocolHandler.request(seq, parms=p)), (b"SPACK", GeckoPackCommandProtocolHandler.keypress(seq, 6, 1, parms=p)),
                (b"SPACK", GeckoPackCommandProtocolHandler.set_value(seq, 6, 1, 1, 10, 1, 1, parms=p))]
        for verb, h in made:
            ensures("sequence-number-is-the-single-byte-after-the-verb", h._content[0:6] == verb + bytes([seq]))
    cover("reached-end", True)
