"""C09 -- self-healing: the per-step contracts the recovery argument is made of (PARTIAL claim).

The statement is a liveness claim over fault scripts and schedules; no contract decides it end to end.
What contracts on the real functions DO decide, for every state / time / reply pattern:

  detection   GeckoAsyncSpa._ping_loop, one iteration under a ghost clock: a delivered reply is reported as
              RUNNING_PING_RECEIVED and moves the answering timestamp to now; an unanswered ping is reported as
              RUNNING_PING_MISSED and -- in that very iteration -- as RUNNING_PING_NO_RESPONSE exactly when the last
              answer is older than PING_DEVICE_NOT_RESPONDING_TIMEOUT; the loop then pauses at most one ping period
              (+J).  With the lifecycle table (shared with C08: CONNECTED + NO_RESPONSE -> ERROR_PING_MISSED) an
              unreachable spa leaves CONNECTED within  timeout + one attempt + one ping period.
  trigger     a ping answered in an error state resets the manager (lifecycle table, shared with C08) and a reset lands
              in IDLE with no descriptors (shared with C08) -- exactly the state in which the pump starts over.
  pump        GeckoAsyncSpaMan._sequence_pump, one iteration from EVERY (state, descriptors, identifier, facade):
              it locates exactly when IDLE with no descriptors, connects exactly when LOCATED with an identifier and no
              facade, passes the configured address / identifier, yields once per iteration, and only cancellation
              ends it.
  refresh     GeckoAsyncSpa._refresh_loop, one iteration: nothing is sent while unconnected or not answering pings;
              an exhausted block request is reported as ERROR_PROTOCOL_RETRY_COUNT_EXCEEDED, an exhausted channel
              request as CONNECTION_PROTOCOL_RETRY_COUNT_EXCEEDED, success as RUNNING_SPA_PACK_REFRESHED.
  no dead end every lifecycle state with an identifier configured either lets the pump act, is CONNECTED, is owned by
              a running locate / connect phase (closed by its finished event: C08 brackets), or has a live spa whose
              next answered ping resets the manager.

NOT decided (said so in the evidence): that these steps compose to "CONNECTED within a bounded time after the network
is healthy" for every fault script and schedule, and that the facade values then mirror the spa (C01/C05/C11 are the
per-connection parts of that).
"""
import asyncio

from verif_api import *
from geckolib.async_spa import GeckoAsyncSpa
from geckolib.async_spa_manager import GeckoAsyncSpaMan
from geckolib.driver.async_spastruct import GeckoAsyncStructure
from geckolib.config import GeckoConfig
from geckolib.spa_events import GeckoSpaEvent as E
from geckolib.spa_state import GeckoSpaState as S
from contracts import c06_engine, c08_lifecycle
from contracts.c06_engine import make_spa, Transport, J_MS, ms
from contracts.c08_lifecycle import make_man, ALL_STATES, ERROR_STATES, Facade

POLL_MS = 100


# ------------------------------------------------------------------------------- pump
class Pump:
    calls = []
    suspensions = 0
    fail = 0            # which phase raises: 0 none, 1 locate, 2 connect
    pre = None


@summary("geckolib.async_spa_manager:GeckoAsyncSpaMan.async_locate_spas", name="locate_phase",
         note="phase stand-in (C08 brackets / C15): records the call, ends in LOCATED_SPAS with a result list, or raises")
async def locate_phase(self, spa_address=None, spa_identifier=None):
    Pump.calls.append(("locate", spa_address, spa_identifier))
    self._spa_state = S.LOCATED_SPAS                  # what the phase's finally reports, whatever happened
    if Pump.fail == 1:
        raise OSError("network is unreachable")
    self._spa_descriptors = []
    return self._spa_descriptors


@summary("geckolib.async_spa_manager:GeckoAsyncSpaMan.async_connect", name="connect_phase",
         note="phase stand-in (C08 brackets / C10): records the call, returns or raises")
async def connect_phase(self, spa_identifier, spa_address=None):
    Pump.calls.append(("connect", spa_identifier, spa_address))
    if Pump.fail == 2:
        raise RuntimeError("socket error during the handshake")
    self._spa_state = S.ERROR_SPA_NOT_FOUND if fresh_bool("not_found") else S.CONNECTING
    return None


def count_suspension(what):
    Pump.suspensions = Pump.suspensions + 1
    if not SYMBOLIC and Pump.suspensions > 3:
        cancel_here()                                   # native replay: the real loop never ends by itself
    if SYMBOLIC and fresh_bool("manager_exits_now"):
        cancel_here()                                   # context exit cancels the pump at any of its suspension points


def expected_calls(state, no_descriptors, identifier, address, has_facade):
    """the pump's part of the recovery argument, written from the statement"""
    out = []
    if state == S.IDLE and no_descriptors:
        out.append(("locate", address, None))
        state = S.LOCATED_SPAS
    if state == S.LOCATED_SPAS and identifier is not None and not has_facade:
        out.append(("connect", identifier, address))
    return out


@loop_contract("geckolib.async_spa_manager:GeckoAsyncSpaMan._sequence_pump", 0, header="while True")
class pump_loop:
    """the manager state at the loop head is whatever the harness built (every combination is enumerated there)"""

    @staticmethod
    def havoc(L):
        Pump.calls = []
        Pump.suspensions = 0

    @staticmethod
    def inv(L):
        if Pump.suspensions == 0:
            return len(Pump.calls) == 0                 # loop head before an iteration: nothing done yet
        (state, no_desc, ident, addr, has_facade) = Pump.pre
        want = expected_calls(state, no_desc, ident, addr, has_facade)
        failing = "locate" if Pump.fail == 1 else "connect" if Pump.fail == 2 else None
        names = [c[0] for c in want]
        if failing in names:
            # the phase raised: nothing after it ran, and the manager starts over (what a reset leaves behind)
            want = want[0:names.index(failing) + 1]
            m = L.self
            return both(Pump.calls == want, Pump.suspensions == 1, m._spa_state is S.IDLE, m._spa_descriptors is None,
                        m._facade is None, m._spa is None)
        return both(Pump.calls == want, Pump.suspensions == 1)


@harness(prop="C09", target="geckolib.async_spa_manager:GeckoAsyncSpaMan._sequence_pump", uses=["locate_phase", "connect_phase"],
         loops=["pump_loop"])
async def pump_acts_exactly_when_it_should(si: int, no_desc: bool, configured: bool, has_addr: bool, has_facade: bool, fail: int):
    requires(both(0 <= si, si < len(ALL_STATES), 0 <= fail, fail <= 2))
    state = ALL_STATES[concrete_cases(si, 0, len(ALL_STATES) - 1)]
    Pump.fail = concrete_cases(fail, 0, 2)
    m = make_man(state, has_facade, has_facade, configured, False)
    requires(implies(state == S.CONNECTED, has_facade))
    m._spa_descriptors = None if no_desc else []
    m._spa_address = "10.0.0.9" if has_addr else None
    Pump.pre = (state, no_desc, m._spa_identifier, m._spa_address, has_facade)
    Pump.calls = []
    Pump.suspensions = 0
    set_suspend_hook(count_suspension)
    cancelled = False
    died = False
    try:
        await m._sequence_pump()
    except asyncio.CancelledError:
        cancelled = True
    except Exception:
        died = True
    ensures("only-cancellation-ends-the-pump-even-when-a-phase-raises", both(not died, cancelled))
    cover("relocates-from-idle", both(state == S.IDLE, no_desc))
    cover("reconnects-from-located", both(state == S.LOCATED_SPAS, configured, not has_facade))


# ------------------------------------------------------------------- no dead-end state
@harness(prop="C09", target="geckolib.async_spa_manager:GeckoAsyncSpaMan._handle_event", name="no_lifecycle_state_is_a_dead_end")
async def no_lifecycle_state_is_a_dead_end(si: int):
    """with an identifier configured: from every state something still drives the manager towards CONNECTED"""
    requires(both(0 <= si, si < len(ALL_STATES)))
    for state in [ALL_STATES[concrete_cases(si, 0, len(ALL_STATES) - 1)]]:
        for has_spa in (True, False):
            has_facade = state == S.CONNECTED
            if has_facade and not has_spa:
                continue                                  # CONNECTED holds only with a live spa (C08 invariant)
            if has_spa and state in (S.IDLE, S.LOCATING_SPAS, S.LOCATED_SPAS, S.ERROR_SPA_NOT_FOUND):
                continue                                  # no spa object exists before a connect phase has started
            pump_acts = len(expected_calls(state, True, "SPA1", None, has_facade)) > 0 or \
                len(expected_calls(state, False, "SPA1", None, has_facade)) > 0
            phase_running = state in (S.LOCATING_SPAS, S.CONNECTING, S.SPA_READY)  # closed by its finished event (C08)
            heals_on_ping = False
            if has_spa and not phase_running and state != S.CONNECTED:
                m = make_man(state, has_facade, True, True, False)
                await m._handle_event(E.RUNNING_PING_RECEIVED)
                heals_on_ping = both(m._spa_state is S.IDLE, m._spa_descriptors is None, m._spa is None, m._facade is None)
            alive = either(state == S.CONNECTED, pump_acts, phase_running, heals_on_ping)
            if state == S.ERROR_SPA_NOT_FOUND:
                known_finding("C09:spa-not-found-is-a-dead-end", True)
                ensures("spa-not-found-is-retried", alive)
            elif state in ERROR_STATES and not has_spa:
                # reachable: a reset in the middle of a handshake drops the spa, the abandoned handshake then reports
                # CONNECTION_PROTOCOL_RETRY_COUNT_EXCEEDED, which sets ERROR_NEEDS_ATTENTION unconditionally
                known_finding("C09:error-state-without-a-spa-is-a-dead-end", True)
                ensures("error-state-without-a-spa-is-left-again", alive)
            else:
                ensures("state-is-not-a-dead-end:" + S.to_string(state), alive)
    cover("reached-end", True)


# ------------------------------------------------------------------------------ ping loop
class Det:
    spa = None
    events = []
    delivered = False
    lp = None
    t_iter = None


TIMEOUT = GeckoConfig.PING_DEVICE_NOT_RESPONDING_TIMEOUT_IN_SECONDS


@summary("geckolib.driver.async_udp_protocol:GeckoAsyncUdpProtocol.get", name="ping_attempt",
         note="engine contract as proved in C06: a handler only if a reply was delivered; one attempt; time passes (bounded there)")
async def ping_attempt(self, create_func, destination=None, retry_count=10):
    ensures("a-ping-is-a-single-attempt", retry_count == 1)
    advance_clock(0)
    if fresh_bool("ping_reply"):
        Det.delivered = True
        return "reply"
    Det.delivered = False
    return None


async def det_events(event, **kwargs):
    Det.events.append((event, clock_now()))
    if not SYMBOLIC and len(Det.events) > 4:
        Det.spa._protocol.transport = None          # native replay: let the real loop end


@loop_contract("geckolib.async_spa:GeckoAsyncSpa._ping_loop", 0, header="while self.isopen")
class ping_loop_reports:
    @staticmethod
    def havoc(L):
        now = fresh_time("now")
        lp = fresh_time("last_answer")
        assume(lp <= now)
        set_clock(now)
        L.self._last_ping = lp
        Det.lp = lp
        Det.events = []
        Det.delivered = False
        Det.t_iter = None
        L.self._last_ping_at = None if fresh_bool("no_reply_yet") else "T"
        L.self._protocol.transport = None if fresh_bool("closed") else Transport()

    @staticmethod
    def inv(L):
        evs = [e[0] for e in Det.events]
        if len(evs) == 0:
            return clock_now() >= L.self._last_ping           # loop head before an iteration
        t_report = Det.events[0][1]
        if Det.delivered:
            return both(evs == [E.RUNNING_PING_RECEIVED], L.self._last_ping == t_report, L.self._last_ping_at is not None,
                        clock_now() >= L.self._last_ping)
        silent_too_long = t_report - Det.lp > TIMEOUT
        want = [E.RUNNING_PING_MISSED, E.RUNNING_PING_NO_RESPONSE] if silent_too_long else [E.RUNNING_PING_MISSED]
        return both(L.self._last_ping == Det.lp, clock_now() >= L.self._last_ping,
                    len(evs) == len(want), evs[0] is E.RUNNING_PING_MISSED,
                    implies(silent_too_long, both(len(evs) == 2, evs[len(evs) - 1] is E.RUNNING_PING_NO_RESPONSE)),
                    # the next look at the spa comes at most one ping period (+J) after this report
                    (clock_now() - t_report) * 1000 <= ms(max(2, GeckoConfig.PING_FREQUENCY_IN_SECONDS)) + J_MS)


@harness(prop="C09", target="geckolib.async_spa:GeckoAsyncSpa._ping_loop", uses=["ping_attempt", "pause_contract"],
         loops=["ping_loop_reports"])
async def silence_is_reported_and_an_answer_is_reported():
    spa = make_spa(True, None)
    spa._last_ping_at = None
    spa._event_handler = det_events
    Det.spa = spa
    Det.events = []
    Det.delivered = False
    Det.lp = clock_now()
    await spa._ping_loop()
    cover("loop-exits-when-closed", True)


# --------------------------------------------------------------------------- refresh loop
class Ref:
    events = []
    block_ok = False
    channel_ok = False
    calls = []


class ChannelReply:
    channel = 9
    signal_strength = 77


@summary("geckolib.driver.async_spastruct:GeckoAsyncStructure.get", name="block_request_outcome",
         note="transfer contract (C01): success or failure after the retry budget")
async def block_request_outcome(self, protocol, create_func, retry_count=10):
    Ref.calls.append("block")
    advance_clock(0)
    return Ref.block_ok


@summary("geckolib.driver.async_udp_protocol:GeckoAsyncUdpProtocol.get", name="channel_request_outcome",
         note="engine contract (C06): a handler only if a reply was delivered")
async def channel_request_outcome(self, create_func, destination=None, retry_count=10):
    Ref.calls.append("channel")
    advance_clock(0)
    return ChannelReply() if Ref.channel_ok else None


async def ref_events(event, **kwargs):
    Ref.events.append(event)
    if not SYMBOLIC:
        Ref.spa._protocol.transport = None          # native replay: let the real loop end after this iteration


@loop_contract("geckolib.async_spa:GeckoAsyncSpa._refresh_loop", 0, header="while self.isopen")
class refresh_loop_reports:
    @staticmethod
    def havoc(L):
        now = fresh_time("now")
        set_clock(now)
        L.self._is_connected = fresh_bool("connected")
        lp = fresh_time("last_answer")
        assume(lp <= now)
        L.self._last_ping = lp if fresh_bool("ever_answered") else None
        Ref.events = []
        Ref.calls = []
        Ref.block_ok = fresh_bool("block_ok")
        Ref.channel_ok = fresh_bool("channel_ok")
        Ref.started = False
        L.self._protocol.transport = None if fresh_bool("closed") else Transport()

    @staticmethod
    def inv(L):
        if not Ref.started:
            return both(len(Ref.events) == 0, len(Ref.calls) == 0)
        spa = L.self
        allowed = Ref.allowed
        if not allowed:
            return both(len(Ref.calls) == 0, len(Ref.events) == 0)
        want = []
        if not Ref.block_ok:
            want.append(E.ERROR_PROTOCOL_RETRY_COUNT_EXCEEDED)
        want.append(E.RUNNING_SPA_PACK_REFRESHED if Ref.channel_ok else E.CONNECTION_PROTOCOL_RETRY_COUNT_EXCEEDED)
        return both(Ref.calls == ["block", "channel"], Ref.events == want,
                    implies(Ref.channel_ok, both(spa.channel == 9, spa.signal == 77)))


@summary("geckolib.config:config_sleep", name="refresh_pause", assumed=True,
         note="config_sleep(d) returns within d + J (ASSUMED, as in C06); marks the start of a refresh iteration for the ghost")
async def refresh_pause(delay):
    d = advance_clock(0)
    assume(d * 1000 <= ms(delay) + J_MS)
    Ref.started = True
    spa = Ref.spa
    if not SYMBOLIC:
        Ref.pauses = Ref.pauses + 1
        if Ref.pauses > 2:
            spa._protocol.transport = None          # native replay: let the real loop end
    answering = False
    if spa._last_ping is not None:
        answering = clock_now() - spa._last_ping < GeckoConfig.PING_FREQUENCY_IN_SECONDS * 2
    Ref.allowed = both(spa._is_connected, answering)


@harness(prop="C09", target="geckolib.async_spa:GeckoAsyncSpa._refresh_loop",
         uses=["block_request_outcome", "channel_request_outcome", "refresh_pause"], loops=["refresh_loop_reports"])
async def refresh_reports_exhaustion_and_keeps_quiet_when_it_must():
    spa = make_spa(True, None)
    spa._event_handler = ref_events
    spa.log_class = None
    spa.struct = GeckoAsyncStructure(None, None)
    spa.channel = 0
    spa.signal = 0
    Ref.pauses = 0
    Ref.spa = spa
    Ref.events = []
    Ref.calls = []
    Ref.started = False
    Ref.allowed = False
    await spa._refresh_loop()
    cover("loop-exits-when-closed", True)


# ------------------------------------------------ shared: lifecycle table, reset, phase brackets (C08)
harness(prop="C09", target="geckolib.async_spa_manager:GeckoAsyncSpaMan._handle_event",
        name="ping_events_move_the_state_as_the_table_says")(c08_lifecycle.every_event_in_every_state_follows_the_table)
harness(prop="C09", target="geckolib.async_spa_manager:GeckoAsyncSpaMan.async_reset",
        name="reset_lands_where_the_pump_starts_over")(c08_lifecycle.reset_always_lands_in_idle_with_nothing_left)
harness(prop="C09", target="geckolib.async_spa_manager:GeckoAsyncSpaMan.async_locate_spas",
        uses=["discover_may_raise", "connect_may_raise_or_complete", "facade_ctor"],
        name="every_started_phase_is_closed")(c08_lifecycle.started_phases_are_always_finished)


# --------------------------------------------- the watchdog exists for the whole life of a connection attempt
from contracts import c10_leaks
from geckolib.async_tasks import AsyncTasks


class Hs:
    tasks_at_first_request = None
    requests = 0


@summary("geckolib.driver.async_udp_protocol:GeckoAsyncUdpProtocol.get", name="first_request_probe",
         note="engine stand-in (C06): notes which background tasks exist when the handshake sends its first request; no reply")
async def first_request_probe(self, create_func, destination=None, retry_count=10):
    if Hs.tasks_at_first_request is None:
        Hs.tasks_at_first_request = [t.name for t in c10_leaks.Net.tasks]
    Hs.requests = Hs.requests + 1
    return None


async def ignore_event(event, **kwargs):
    return None


@harness(prop="C09", target="geckolib.async_spa:GeckoAsyncSpa._connect", uses=["first_request_probe"],
         name="ping_and_refresh_loops_run_from_the_first_request_of_a_handshake")
async def ping_and_refresh_loops_run_from_the_first_request_of_a_handshake():
    """a handshake that fails half-way (blackout) leaves the manager in an error state; only an answered ping leads out of
    it, so the ping loop must already be running when the handshake sends its first request"""
    c10_leaks.arm(-1)
    Hs.tasks_at_first_request = None
    Hs.requests = 0
    spa = GeckoAsyncSpa(b"IOSx", c10_leaks.Descr(), AsyncTasks(), ignore_event)
    await spa.connect()
    ensures("handshake-sent-a-request", Hs.requests >= 1)
    ensures("ping-loop-already-running", "SPA:Ping loop" in Hs.tasks_at_first_request)
    ensures("refresh-loop-already-running", "SPA:Refresh loop" in Hs.tasks_at_first_request)
    ensures("failed-handshake-keeps-its-watchdog", both(not spa.is_connected,
                                                       len([t for t in c10_leaks.Net.tasks if t.name == "SPA:Ping loop" and not t.cancelled]) == 1))


# ------------------------------------------------- an RF-error storm is reported, the watchdog stays
class RfHandler:
    def __init__(self, n):
        self.total_error_count = n


class RfSeen:
    events = []


async def rf_events(event, **kwargs):
    RfSeen.events.append(event)


@harness(prop="C09", target="geckolib.async_spa:GeckoAsyncSpa._async_on_rferr", name="rf_error_storm_is_reported_and_the_ping_loop_survives")
async def rf_error_storm_is_reported_and_the_ping_loop_survives(n: int):
    """any number of RF errors seen on a connection: each is reported, the halt is reported once the count passes the limit, and
    the connection itself -- endpoint, ping loop -- is left alone: only an answered ping can lead out of the error state"""
    from geckolib.const import GeckoConstants
    requires(0 <= n)
    c10_leaks.arm(-1)
    tm = AsyncTasks()
    tm.add_task(None, "Ping loop", "SPA")
    spa = make_spa(True, None)
    spa._taskman = tm
    spa._transport = c10_leaks.Transport()
    spa._event_handler = rf_events
    RfSeen.events = []
    await spa._async_on_rferr(RfHandler(n), ("10.0.0.9", 10022))
    too_many = n > GeckoConstants.MAX_RF_ERRORS_BEFORE_HALT
    ensures("error-reported-and-halt-reported-past-the-limit",
            RfSeen.events == ([E.ERROR_RF_ERROR, E.ERROR_TOO_MANY_RF_ERRORS] if too_many else [E.ERROR_RF_ERROR]))
    ensures("connection-left-alone", both(spa.is_connected, spa._protocol is not None, not spa._transport.closed))
    ensures("ping-loop-not-cancelled", not c10_leaks.Net.tasks[0].cancelled)
    cover("past-the-limit", too_many)


# a reset cancels the tasks of the spa's domain ("SPA:") and never the manager's own ("SPAMAN:Sequence Pump") -- shared with C10
harness(prop="C09", target="geckolib.async_tasks:AsyncTasks.cancel_key_tasks", name="reset_never_cancels_the_sequence_pump",
        bounded="task registries of 0..4 entries")(c10_leaks.keyed_cancellation_reaches_every_live_task_of_the_domain)
