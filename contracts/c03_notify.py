"""C03 -- change notifications fire exactly once, iff the decoded value changed.

Contract on `replace_status_block_segment` (both structure classes) together with
`GeckoStructAccessor.status_block_changed`, per accessor shape; old block, offset and the
patch (any length, any content, any overlap with the item's bytes) are symbolic.
"""
from verif_api import *
from geckolib.driver.spastruct import GeckoStructure
from geckolib.driver.async_spastruct import GeckoAsyncStructure
from geckolib.driver.observable import Observable
from contracts.c02_accessor import build, spec_length


class Recorder:
    """observer that records what it is told and which block is visible at that moment"""

    def __init__(self, struct_):
        self.struct = struct_
        self.calls = []

    def __call__(self, sender, old_value, new_value):
        self.calls.append((sender, old_value, new_value, self.struct.status_block if self.struct is not None else None))

    def method_observer(self, sender, old_value, new_value):
        self.calls.append((sender, old_value, new_value, self.struct.status_block if self.struct is not None else None))


def splice(block, offset, segment):
    return block[0:offset] + segment + block[offset + len(segment):]


def notify_post(a, rec, old_block, new_block):
    """postcondition written from the property statement"""
    old_v = a._get_value(old_block)
    new_v = a._get_value(new_block)
    if old_v != new_v:
        ensures("changed-value-notifies-exactly-once", len(rec.calls) == 1)
        (sender, o, n, seen) = rec.calls[0]
        ensures("passes-old-and-new-decoded-values", both(sender is a, o == old_v, n == new_v))
        ensures("observer-already-reads-the-new-block", seen == new_block)
    else:
        ensures("unchanged-value-stays-silent", len(rec.calls) == 0)


def run_update(struct_, shape, pos, old_block, offset, segment):
    struct_.set_status_block(old_block)
    a = build(shape, struct_, pos)
    struct_.accessors = {"item": a}
    rec = Recorder(struct_)
    a.watch(rec)
    struct_.replace_status_block_segment(offset, segment)
    new_block = splice(old_block, offset, segment)
    ensures("block-is-the-spliced-block", struct_.status_block == new_block)
    notify_post(a, rec, old_block, new_block)


@harness(prop="C03", cases="c02_all_nontemp_shapes",
         target="geckolib.driver.async_spastruct:GeckoAsyncStructure.replace_status_block_segment")
def async_struct_update_notifies(shape, pos: int, old_block: bytes, offset: int, segment: bytes):
    requires(len(old_block) == 1024)
    requires(both(0 <= pos, pos + spec_length(shape) <= 1024))
    requires(both(0 <= offset, offset + len(segment) <= 1024))
    s = GeckoAsyncStructure(None, None)
    run_update(s, shape, pos, old_block, offset, segment)
    if spec_length(shape) == 2:
        cover("patch-touches-only-the-first-byte", both(offset + len(segment) == pos + 1, offset <= pos, len(segment) > 0))
    cover("reached-end", True)


@harness(prop="C03", cases="c02_all_nontemp_shapes",
         target="geckolib.driver.spastruct:GeckoStructure.replace_status_block_segment")
def sync_struct_update_notifies(shape, pos: int, old_block: bytes, offset: int, segment: bytes):
    requires(len(old_block) == 1024)
    requires(both(0 <= pos, pos + spec_length(shape) <= 1024))
    requires(both(0 <= offset, offset + len(segment) <= 1024))
    s = GeckoStructure(None)
    run_update(s, shape, pos, old_block, offset, segment)
    cover("reached-end", True)


# ------------------------------------------------------ histories: nothing is remembered from an earlier update
@harness(prop="C03", cases="c02_all_nontemp_shapes", cases_quick="c02_shape_kinds", target="geckolib.driver.accessor:GeckoStructAccessor.status_block_changed",
         name="old_value_is_read_from_the_block_that_is_being_replaced")
def old_value_is_read_from_the_block_that_is_being_replaced(shape, pos: int, b0: bytes, off1: int, seg1: bytes, b2: bytes, off2: int, seg2: bytes, async_class: bool):
    """an update, then a whole block installed (set_status_block: a snapshot load, a reconnect), then another update: the second
    notification compares and reports against the block it replaces, not against what the item decoded to earlier"""
    requires(both(len(b0) == 1024, len(b2) == 1024))
    requires(both(0 <= pos, pos + spec_length(shape) <= 1024))
    requires(both(0 <= off1, off1 + len(seg1) <= 1024, 0 <= off2, off2 + len(seg2) <= 1024))
    s = GeckoAsyncStructure(None, None) if async_class else GeckoStructure(None)
    s.set_status_block(b0)
    a = build(shape, s, pos)
    s.accessors = {"item": a}
    first = Recorder(s)
    a.watch(first)
    s.replace_status_block_segment(off1, seg1)
    a.unwatch(first)
    s.set_status_block(b2)
    rec = Recorder(s)
    a.watch(rec)
    s.replace_status_block_segment(off2, seg2)
    notify_post(a, rec, b2, splice(b2, off2, seg2))
    cover("reached-end", True)


# ------------------------------------------- full / range refresh through the protocol path (both structure classes)
class FinalSegment:
    """the completing STATV of a refresh as the structure sees it"""

    def __init__(self, sequence, data):
        self.sequence = sequence
        self.next = 0
        self.data = data
        self._should_remove_handler = False

    def retry(self, socket):
        return True


@harness(prop="C03", target="geckolib.driver.spastruct:GeckoStructure._on_status_block_received",
         name="refresh_completed_through_the_protocol_path_notifies")
def refresh_completed_through_the_protocol_path_notifies(pos: int, old_block: bytes, start: int, earlier: bytes, last: bytes, first_ever: bool):
    """'after any update (full refresh, ...)': the blocking client's refresh arrives segment by segment; when the last
    segment completes it the watched item whose value changed is told exactly once -- on the very first refresh of a
    structure as well as on later ones"""
    from geckolib.driver.accessor import GeckoByteStructAccessor
    requires(len(old_block) == 1024)
    requires(both(0 <= pos, pos <= 1023, 0 <= start, start + len(earlier) + len(last) <= 1024))
    requires(len(earlier) % 39 == 0)
    k = len(earlier) // 39
    requires(k <= 26)
    s = GeckoStructure(None)
    s.set_status_block(old_block)
    s.had_at_least_one_block = not first_ever
    a = GeckoByteStructAccessor(s, "item", pos, "ALL")
    s.accessors = {"item": a}
    rec = Recorder(s)
    a.watch(rec)
    # reassembly state after k in-sequence segments (the representation invariant of C01)
    s._socket = None
    s._status_block_offset = start
    s._next_expected = k
    s._status_block_segments = [earlier] if k > 0 else []
    h = FinalSegment(k, last)
    s._on_status_block_received(h, ("10.0.0.9", 10022))
    new_block = splice(old_block, start, earlier + last)
    ensures("block-is-the-spliced-block", s.status_block == new_block)
    notify_post(a, rec, old_block, new_block)
    ensures("refresh-marked-complete", both(s.had_at_least_one_block, h._should_remove_handler))
    cover("very-first-refresh-changes-the-item", both(first_ever, byte_at(old_block, pos) != byte_at(new_block, pos)))


# ------------------------------------------------------------------------- Observable
def make_observers(kind, n):
    out = []
    for i in range(n):
        r = Recorder(None)
        out.append(r if kind == 0 else r.method_observer)
    return out


def recorder_of(o, kind):
    return o if kind == 0 else o.__self__


@harness(prop="C03", target="geckolib.driver.observable:Observable.watch", name="observable_registry", bounded="observer lists of 0..3 members",
         note="BOUNDED: observer lists of 0..3 members, every aliasing pattern of the (re-)registered observer")
def observable_registry(n: int, kind: int, dup: int, rem: int):
    """watch twice -> called once; unwatch -> never called; every observer called exactly once in order"""
    requires(both(0 <= n, n <= 3, 0 <= kind, kind <= 1))
    n = concrete_cases(n, 0, 3)
    kind = concrete_cases(kind, 0, 1)
    requires(both(0 <= dup, dup < n, 0 <= rem, rem < n))
    dup = concrete_cases(dup, 0, 2)
    rem = concrete_cases(rem, 0, 2)
    obs = make_observers(kind, n)
    o = Observable()
    for x in obs:
        o.watch(x)
    # registering again (a *fresh* reference to the same observer) must not add it
    again = obs[dup] if kind == 0 else recorder_of(obs[dup], kind).method_observer
    o.watch(again)
    ensures("no-duplicate-registration", len(o._observers) == n)
    o._on_change("sender", 1, 2)
    for i in range(n):
        ensures("each-observer-called-exactly-once", recorder_of(obs[i], kind).calls == [("sender", 1, 2, None)])
    gone = obs[rem] if kind == 0 else recorder_of(obs[rem], kind).method_observer
    o.unwatch(gone)
    ensures("unwatch-removes", len(o._observers) == n - 1)
    o._on_change("sender", 3, 4)
    for i in range(n):
        want = 1 if i == rem else 2
        ensures("removed-observer-never-called-again", len(recorder_of(obs[i], kind).calls) == want)
    o.unwatch_all()
    o._on_change("sender", 5, 6)
    for i in range(n):
        want = 1 if i == rem else 2
        ensures("unwatch-all-silences-everyone", len(recorder_of(obs[i], kind).calls) == want)
    cover("reached-end", True)


class TearDown:
    """an observer that reacts to the change by tearing the registry down (a reset from inside a change callback)"""

    def __init__(self, owner):
        self.owner = owner
        self.calls = 0

    def __call__(self, sender, old, new):
        self.calls += 1
        self.owner.unwatch_all()


@harness(prop="C03", target="geckolib.driver.observable:Observable.unwatch_all", name="removal_during_notification_takes_effect_at_once",
         bounded="1..3 further observers registered after the one that tears down")
def removal_during_notification_takes_effect_at_once(n: int):
    """'removed observers are never called': also when the removal happens while a notification is being delivered"""
    requires(both(1 <= n, n <= 3))
    n = concrete_cases(n, 1, 3)
    o = Observable()
    first = Recorder(None)
    o.watch(first)
    t = TearDown(o)
    o.watch(t)
    later = make_observers(0, n)
    for x in later:
        o.watch(x)
    o._on_change("sender", 1, 2)
    ensures("observers-before-the-removal-were-called-once", both(len(first.calls) == 1, t.calls == 1))
    for x in later:
        ensures("observers-removed-mid-notification-are-not-called", len(x.calls) == 0)
    ensures("registry-is-empty", not o.has_observers)
    o._on_change("sender", 3, 4)
    ensures("nobody-is-called-afterwards", both(len(first.calls) == 1, t.calls == 1))


# ------------------------------------------------------------------ temperature items
from geckolib.driver.accessor import GeckoStructAccessor, GeckoTempStructAccessor, GeckoEnumStructAccessor


def word_at(b, i):
    return byte_at(b, i) * 256 + byte_at(b, i + 1)


@harness(prop="C03", target="geckolib.driver.accessor:GeckoTempStructAccessor._get_value",
         name="temperature_item_notifies_iff_its_stored_reading_changed", timeout=120)
def temperature_item_notifies_iff_its_stored_reading_changed(upos: int, tpos: int, old_block: bytes, offset: int, segment: bytes):
    """temperatures: 'its stored reading' -- the unit item may change in the same update.
    Float arithmetic is modelled as exact rationals HERE; that IEEE rounding never merges two distinct readings of one
    unit is the separately proved lemma temperature_decoding_is_injective (below, Float64 theory)."""
    exact_rational_floats(True)
    requires(len(old_block) == 1024)
    requires(both(0 <= upos, upos <= 1023, 0 <= tpos, tpos + 2 <= 1024))
    requires(both(0 <= offset, offset + len(segment) <= 1024))
    s = GeckoAsyncStructure(None, None)
    s.set_status_block(old_block)
    units = GeckoEnumStructAccessor(s, "TempUnits", upos, None, ["F", "C"], None, None, "ALL")
    t = GeckoTempStructAccessor(s, "SetpointG", tpos, "ALL")
    s.accessors = {"TempUnits": units, "SetpointG": t}
    rec = Recorder(s)
    t.watch(rec)
    s.replace_status_block_segment(offset, segment)
    new_block = splice(old_block, offset, segment)
    if word_at(old_block, tpos) != word_at(new_block, tpos):
        ensures("changed-reading-notifies-exactly-once", len(rec.calls) == 1)
        ensures("observer-already-reads-the-new-block", both(rec.calls[0][0] is t, rec.calls[0][3] == new_block))
    else:
        ensures("unchanged-reading-stays-silent-even-if-the-unit-changed", len(rec.calls) == 0)
    cover("unit-flips-in-the-same-update", both(byte_at(old_block, upos) == 0, byte_at(new_block, upos) == 1,
                                                 word_at(old_block, tpos) == word_at(new_block, tpos)))


@harness(prop="C03", cases="c14_units", target="geckolib.driver.accessor:GeckoTempStructAccessor._get_value",
         uses=["raw_word_contract"], name="temperature_decoding_is_injective", timeout=600)
def temperature_decoding_is_injective(unit, raw1: u16, raw2: u16):
    """IEEE lemma: two stored words read as equal temperatures only if they are the same word (per unit)"""
    from contracts import c14_temp
    s = c14_temp.TempStruct("C" if unit["celsius"] else "F")
    a = GeckoTempStructAccessor(s, "SetpointG", 1, "ALL")
    c14_temp.RAW[0] = raw1
    v1 = a.value
    c14_temp.RAW[0] = raw2
    v2 = a.value
    ensures("equal-readings-only-for-equal-words", (v1 == v2) == (raw1 == raw2))


from contracts.c14_temp import raw_word_contract
