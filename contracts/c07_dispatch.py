"""C07 -- dispatch: each datagram consumed once, only by a capable, addressed consumer.

Sequential clauses on the real consumers, with arbitrary interference by the other
consumer tasks modelled at every suspension point (they may pop the head -- which clears
the mark -- and producers may append; nobody else marks):
  * queue representation invariant  marked => non-empty and head is the marked item
  * consume / wait_for_response pop only a head they accept, in the same atomic section
    (no suspension between looking at the head and removing it), and handle exactly it
  * the unhandled consumer discards only an item that stayed marked at the head for a
    whole yield (nobody wanted it)
  * a framed packet whose identifiers are not this connection's pair has no effect.
  * head-of-line clause, as progress per iteration of the discard loop: whatever was at the
    head when an iteration of the unhandled consumer began is gone when that iteration ends
    (taken by somebody or discarded), for every datagram content; producers never clear the
    mark; an arriving datagram is always appended.  "A few polling intervals" then follows
    under the scheduler assumption that every consumer task gets to run once per interval
    (ASSUMED -- asyncio's fairness is not modelled).
"""
import asyncio

from verif_api import *
from geckolib.driver.async_peekablequeue import AsyncPeekableQueue
from geckolib.driver.udp_protocol_handler import GeckoUdpProtocolHandler
from geckolib.driver.protocol.unhandled import GeckoUnhandledProtocolHandler
from geckolib.driver.protocol.version import GeckoVersionProtocolHandler
from geckolib.driver.protocol.packet import GeckoPacketProtocolHandler
from geckolib.async_spa import GeckoAsyncSpa

SENDER = ("10.0.0.9", 10022, b"SPA", b"IOS")


class Mon:
    marked_item = None      # ghost: the item that was at the head when mark() was called
    log = []                # ("look", item) / ("pop", item) / ("suspend",) in program order
    handled = []
    finished = []


class MonQueue(AsyncPeekableQueue):
    """the REAL queue with ghost monitoring of mark / pop"""

    def pop(self):
        item = self._queue[0] if self.qsize() > 0 else None
        Mon.log.append(("pop", item))
        super().pop()

    def mark(self):
        Mon.marked_item = self._queue[0] if self.qsize() > 0 else None
        super().mark()


def queue_inv(q):
    if q._marked:
        return both(q.qsize() > 0, q._queue[0] is Mon.marked_item)
    return True


class Proto:
    def __init__(self, q):
        self.queue = q


def fresh_item(tag):
    return (fresh_bytes(tag), SENDER)


def others_act(what):
    """rely condition: another consumer may pop the head (clearing the mark); a producer may append"""
    Mon.log.append(("suspend",))
    q = Mon.q
    if not SYMBOLIC:
        # native replay: the real loops never end by themselves
        Mon.suspensions = getattr(Mon, "suspensions", 0) + 1
        if Mon.suspensions > 8:
            cancel_here()
    act = fresh_int("interference", 0, 2)
    act = concrete_cases(act, 0, 2)
    if act == 1:
        q._queue.append(fresh_item("late_arrival"))
    elif act == 2 and q.qsize() > 0:
        q._queue.pop(0)
        q._marked = False


def arbitrary_queue(q):
    """any queue state satisfying the representation invariant (0..2 items shown; the consumers only look at the head)"""
    q._queue.clear()
    n = fresh_int("queued", 0, 2)
    n = concrete_cases(n, 0, 2)
    for i in range(n):
        q._queue.append(fresh_item("dgram"))
    q._marked = False
    if n > 0 and fresh_bool("was_marked"):
        q._marked = True
        Mon.marked_item = q._queue[0]


@harness(prop="C07", target="geckolib.driver.async_peekablequeue:AsyncPeekableQueue.pop")
def queue_operations_keep_the_invariant(op: int):
    requires(both(0 <= op, op <= 2))
    op = concrete_cases(op, 0, 2)
    q = MonQueue()
    Mon.q = q
    Mon.log = []
    arbitrary_queue(q)
    ensures("arbitrary-state-satisfies-invariant", queue_inv(q))
    before = list(q._queue)
    was_marked = q.is_marked
    if op == 0:
        new_item = fresh_item("new")
        q.put_nowait(new_item)
        ensures("put-appends-at-the-tail", both(q.qsize() == len(before) + 1, (q.head is before[0]) if len(before) > 0 else (q.head is q._queue[0])))
        ensures("put-keeps-everything-queued-before", both(list(q._queue)[0:len(before)] == before, q._queue[len(before)] is new_item))
        ensures("put-keeps-the-mark", q.is_marked == was_marked)
    elif op == 1:
        requires(q.qsize() > 0)
        q.pop()
        ensures("pop-removes-exactly-the-head", list(q._queue) == before[1:])
        ensures("pop-clears-the-mark", not q.is_marked)
    else:
        requires(q.head is not None)
        q.mark()
        ensures("mark-keeps-content", list(q._queue) == before)
    ensures("invariant-preserved", queue_inv(q))
    if q.qsize() == 0:
        ensures("empty-queue-has-no-head", q.head is None)


class Hnd(GeckoVersionProtocolHandler):
    async def async_handle(self, received_bytes, sender):
        Mon.handled.append((received_bytes, sender))


async def client_callback(handler, sender):
    """a client handler that suspends (awaits the application)"""
    await asyncio.sleep(0)
    Mon.finished.append(sender)


def pops(log):
    return [e for e in log if e[0] == "pop"]


@loop_contract("geckolib.driver.udp_protocol_handler:GeckoUdpProtocolHandler.consume", 0, header="while True")
class consume_loop:
    @staticmethod
    def havoc(L):
        arbitrary_queue(L.protocol.queue)
        Mon.log = []
        Mon.handled = []
        L.self._should_remove_handler = fresh_bool("remove_requested")

    @staticmethod
    def inv(L):
        return both(queue_inv(L.protocol.queue), consumed_legally(L.self))


def consumed_legally(h):
    """everything this consumer removed in the current iteration: it accepted it, handled exactly it, and
    no suspension point lies between the removal and the preceding look at the head"""
    ps = pops(Mon.log)
    if len(ps) == 0:
        return len(Mon.handled) == 0
    if len(ps) > 1:
        return False
    item = ps[0][1]
    first = Mon.log.index(ps[0])
    no_suspend_before_pop = ("suspend",) not in Mon.log[0:first]
    return both(item is not None, h.can_handle(item[0], item[1]), no_suspend_before_pop,
                len(Mon.handled) == 1, Mon.handled[0][0] is item[0])


@harness(prop="C07", target="geckolib.driver.udp_protocol_handler:GeckoUdpProtocolHandler.consume", loops=["consume_loop"])
async def consumer_takes_only_what_it_accepts():
    q = MonQueue()
    Mon.q = q
    Mon.log = []
    Mon.handled = []
    Mon.finished = []
    set_suspend_hook(others_act)
    h = Hnd(async_on_handled=client_callback)
    cancelled = False
    try:
        await h.consume(Proto(q))
    except asyncio.CancelledError:
        cancelled = True
    ensures("terminates-only-when-removal-was-requested", either(cancelled, h.should_remove_handler))
    if not SYMBOLIC:
        ensures("native-monitor:consumed-legally", consumed_legally(h) if len(pops(Mon.log)) <= 1 else True)
    cover("loop-can-terminate", True)


@loop_contract("geckolib.driver.protocol.unhandled:GeckoUnhandledProtocolHandler.consume", 0, header="while True")
class unhandled_loop:
    @staticmethod
    def havoc(L):
        arbitrary_queue(L.protocol.queue)
        Mon.log = []
        Mon.start_head = L.protocol.queue.head

    @staticmethod
    def inv(L):
        ps = pops(Mon.log)
        ok = True
        if len(ps) > 1:
            ok = False
        if len(ps) == 1:
            first = Mon.log.index(ps[0])
            # discarded only if it was already at the head when this iteration began (and was marked
            # then or by this iteration) and at least one full yield passed before the removal
            ok = both(ps[0][1] is not None, ps[0][1] is Mon.start_head, ("suspend",) in Mon.log[0:first])
        # progress: once an iteration that began with a datagram at the head has yielded, that datagram is gone
        # by the time the loop comes round again (somebody took it, or it is discarded here) -- for every content
        if Mon.start_head is not None and ("suspend",) in Mon.log:
            ok = both(ok, L.protocol.queue.head is not Mon.start_head)
        return both(queue_inv(L.protocol.queue), ok)


@harness(prop="C07", target="geckolib.driver.protocol.unhandled:GeckoUnhandledProtocolHandler.consume", loops=["unhandled_loop"],
         name="unhandled_discards_only_after_a_full_yield")
async def unhandled_discards_only_after_a_full_yield():
    q = MonQueue()
    Mon.q = q
    Mon.log = []
    Mon.start_head = None
    set_suspend_hook(others_act)
    u = GeckoUnhandledProtocolHandler()
    ensures("accepts-everything", u.can_handle(fresh_bytes("anything"), SENDER))
    if fresh_bool("run_loop"):
        try:
            await u.consume(Proto(q))
        except asyncio.CancelledError:
            pass
    cover("harness-completes", True)


# -------------------------------------------------------------------- addressed packets
class RecProto:
    def __init__(self):
        self.received = []

    def datagram_received(self, data, addr):
        self.received.append((data, addr))


class Desc:
    def __init__(self, ip, port, ident):
        self.destination = (ip, port)
        self.identifier = ident


class PacketStub:
    def __init__(self, parms, content):
        self.parms = parms
        self.packet_content = content


@harness(prop="C07", target="geckolib.async_spa:GeckoAsyncSpa._async_on_packet")
async def misaddressed_packet_has_no_effect(port: int, rport: int, spa_id: bytes, client_id: bytes, src: bytes, dst: bytes,
                                             content: bytes, same_ip: bool):
    spa = new(GeckoAsyncSpa)
    spa._observers = []
    spa.descriptor = Desc("10.0.0.9", port, spa_id)
    spa.client_id = client_id
    proto = RecProto()
    spa._protocol = proto
    ip = "10.0.0.9" if same_ip else "10.0.0.66"
    parms = (ip, rport, src, dst)
    await spa._async_on_packet(PacketStub(parms, content), parms)
    ours = both(same_ip, rport == port, src == spa_id, dst == client_id)
    if ours:
        ensures("addressed-packet-is-delivered-once", both(len(proto.received) == 1, proto.received[0][0] is content))
    else:
        ensures("misaddressed-packet-has-no-effect", len(proto.received) == 0)
    cover("only-the-client-identifier-differs", both(same_ip, rport == port, src == spa_id, dst != client_id))
    cover("ours", ours)


# -------------------------------------------------- malformed framing after a good packet
class Frame:
    parts = None


@summary("geckolib.driver.protocol.packet:GeckoPacketProtocolHandler._extract_packet_parts", name="frame_parser_contract", assumed=True,
         note="ASSUMED (regular expression, checked bounded in C04): the three fields of a well-formed frame, (None, None, None) otherwise")
def frame_parser_contract(self, content):
    if Frame.parts is None:
        return (None, None, None)
    return Frame.parts


@harness(prop="C07", target="geckolib.driver.protocol.packet:GeckoPacketProtocolHandler.handle", uses=["frame_parser_contract"],
         name="malformed_frame_after_a_good_one_has_no_effect")
async def malformed_frame_after_a_good_one_has_no_effect(port: int, spa_id: bytes, client_id: bytes, content: bytes, garbage: bytes):
    """the long-lived packet consumer: an addressed packet, then a packet whose inner framing does not parse"""
    spa = new(GeckoAsyncSpa)
    spa._observers = []
    spa.descriptor = Desc("10.0.0.9", port, spa_id)
    spa.client_id = client_id
    proto = RecProto()
    spa._protocol = proto
    h = GeckoPacketProtocolHandler(async_on_handled=spa._async_on_packet)
    sender = ("10.0.0.9", port)
    Frame.parts = (spa_id, client_id, content)
    h.handle(b"<PACKT>" + content + b"</PACKT>", sender)
    await h.async_handled(sender)
    ensures("addressed-packet-delivered-once", both(len(proto.received) == 1, proto.received[0][0] is content))
    Frame.parts = None
    h.handle(b"<PACKT>" + garbage + b"</PACKT>", sender)
    await h.async_handled(sender)
    ensures("malformed-frame-has-no-effect", len(proto.received) == 1)


# ------------------------------------------------------------- arrival: every datagram is queued
from geckolib.driver.async_udp_protocol import GeckoAsyncUdpProtocol


def no_connection_lost(exc):
    pass


@harness(prop="C07", target="geckolib.driver.async_udp_protocol:GeckoAsyncUdpProtocol.datagram_received",
         note="queue length is symbolic (0 .. 10^6 pending datagrams)")
def every_arriving_datagram_is_queued_at_the_tail(n: int, data: bytes, port: int, marked: bool):
    requires(both(0 <= n, n <= 1000000))
    p = GeckoAsyncUdpProtocol(no_connection_lost, ("10.0.0.9", 10022))
    ensures("fresh-connection-has-an-empty-unmarked-queue", both(p.queue.qsize() == 0, not p.queue.is_marked, p.queue.head is None))
    pending = sym_list(n, lambda j: (b"pending", SENDER), key=("pending",))
    p.queue._queue = pending
    p.queue._marked = both(marked, n > 0)
    m0 = p.queue.is_marked
    addr = ("10.0.0.9", port)
    p.datagram_received(data, addr)
    ensures("queued-exactly-once", p.queue.qsize() == n + 1)
    last = p.queue._queue[n]
    ensures("queued-at-the-tail-intact", both(last[0] is data, last[1] == addr))
    ensures("arrival-keeps-the-mark", p.queue.is_marked == m0)
    if n == 0:
        ensures("first-arrival-becomes-the-head", p.queue.head[0] is data)
    cover("arrives-behind-many", n > 100)


# ------------------------------------------------------- the inline waiter (wait_for_response) is a consumer too
from geckolib.config import GeckoConfig


class Waiter(GeckoVersionProtocolHandler):
    async def async_handle(self, received_bytes, sender):
        Mon.handled.append((received_bytes, sender))


@loop_contract("geckolib.driver.udp_protocol_handler:GeckoUdpProtocolHandler.wait_for_response", 0, header="while True")
class waiter_loop:
    @staticmethod
    def havoc(L):
        set_clock(fresh_time("now"))
        arbitrary_queue(L.protocol.queue)
        Mon.log = []
        Mon.handled = []
        Mon.before = list(L.protocol.queue._queue)
        Mon.was_marked = L.protocol.queue._marked

    @staticmethod
    def inv(L):
        return both(queue_inv(L.protocol.queue), len(Mon.handled) == 0, len(pops(Mon.log)) == 0)


@harness(prop="C07", target="geckolib.driver.udp_protocol_handler:GeckoUdpProtocolHandler.wait_for_response", loops=["waiter_loop"],
         name="waiter_takes_exactly_the_head_it_accepts_and_clears_the_mark")
async def waiter_takes_exactly_the_head_it_accepts_and_clears_the_mark():
    """a request waiting for its reply removes a datagram only through the queue's own pop (which clears the mark the
    unhandled consumer may have set on it), only when it accepts it, and leaves the rest of the queue as it was"""
    q = MonQueue()
    Mon.q = q
    Mon.log = []
    Mon.handled = []
    Mon.before = []
    Mon.was_marked = False
    set_suspend_hook(others_act)
    h = Waiter(content=b"AVERS\x01", timeout=GeckoConfig.PROTOCOL_TIMEOUT_IN_SECONDS, parms=SENDER)
    got = await h.wait_for_response(Proto(q))
    if got:
        ensures("took-exactly-the-head-it-looked-at", both(len(Mon.before) > 0, len(Mon.handled) == 1, Mon.handled[0][0] is Mon.before[0][0]))
        ensures("it-accepts-what-it-took", h.can_handle(Mon.handled[0][0], Mon.handled[0][1]))
        ensures("rest-of-the-queue-untouched", list(q._queue) == Mon.before[1:])
        ensures("removal-clears-the-mark", not q.is_marked)
    else:
        ensures("gave-up-without-consuming-anything", both(len(Mon.handled) == 0, list(q._queue) == Mon.before))
    ensures("queue-invariant-holds-when-the-waiter-returns", queue_inv(q))
    cover("reply-was-marked-by-the-unhandled-consumer", both(got, Mon.was_marked))


# ---------------------------------------------------------------- one receive queue per connection
@harness(prop="C07", target="geckolib.driver.async_udp_protocol:GeckoAsyncUdpProtocol.__init__", name="every_connection_has_its_own_receive_queue")
def every_connection_has_its_own_receive_queue(data: bytes, port: int):
    """'received on a connection': the locator's endpoint, a spa connection and its successor after a reconnect never share a
    queue or a mark -- a datagram queued on one is invisible to the consumers of the others"""
    a = GeckoAsyncUdpProtocol(no_connection_lost, ("10.0.0.9", 10022))
    b = GeckoAsyncUdpProtocol(no_connection_lost, ("10.0.0.9", 10022))
    ensures("distinct-queue-objects", a.queue is not b.queue)
    a.datagram_received(data, ("10.0.0.9", port))
    a.queue.mark()
    ensures("other-connection-sees-nothing", both(b.queue.qsize() == 0, b.queue.head is None, not b.queue.is_marked))
    c = GeckoAsyncUdpProtocol(no_connection_lost, ("10.0.0.9", 10022))
    ensures("a-later-connection-starts-empty", both(c.queue.qsize() == 0, not c.queue.is_marked, c.queue is not a.queue))


# a framed packet is accepted by the packet consumer ONLY, whatever its payload spells (shared with C04)
from contracts import c04_wire
harness(prop="C07", target="geckolib.driver.protocol.packet:GeckoPacketProtocolHandler.send_bytes",
        name="framed_packet_is_claimed_by_the_packet_consumer_only")(c04_wire.packet_framing_layout)
harness(prop="C07", target="geckolib.driver.protocol.packet:GeckoPacketProtocolHandler.can_handle",
        name="frame_carrying_any_verb_goes_to_the_packet_consumer_only")(c04_wire.frame_carrying_any_verb_is_claimed_by_the_packet_handler_only)
harness(prop="C07", target="geckolib.driver.protocol.statusblock:GeckoAsyncPartialStatusBlockProtocolHandler.can_handle",
        name="truncated_or_foreign_verbs_are_accepted_by_nobody_else")(c04_wire.a_datagram_belongs_to_the_handler_of_its_leading_verb_only)
