"""C05 -- partial updates are applied exactly once, in arrival order, and acknowledged.

Per-message contract (decode regardless of earlier buffer content, one STATQ ack with a
protocol-range sequence number) + per-record step contract of the apply loops (the k-th
iteration performs exactly splice(block, pos_k, data_k) -- one induction step per record)
+ buffer invariant of the long-lived handlers (async: overwritten per message; threaded:
empty between messages).
"""
from verif_api import *
from geckolib.driver.protocol.statusblock import (
    GeckoPartialStatusBlockProtocolHandler, GeckoAsyncPartialStatusBlockProtocolHandler,
)
from geckolib.driver.async_spastruct import GeckoAsyncStructure
from geckolib.driver.spastruct import GeckoStructure
from geckolib.async_spa import GeckoAsyncSpa
from geckolib.spa import GeckoSpa

SENDER = ("10.0.0.9", 10022, b"SPA", b"IOS")


def word16(b, i):
    return byte_at(b, i) * 256 + byte_at(b, i + 1)


def decoded(rem, n):
    """the protocol's records: (position, data) for record j of the STATP remainder"""
    return sym_list(n, lambda j: (word16(rem, 1 + 4 * j), rem[3 + 4 * j:5 + 4 * j]), key=("decoded", rem))


def well_formed(msg):
    """STATP + count + 4-byte records (the last record may carry fewer than 2 data bytes:
    the simulator's single 1-byte change)"""
    n = byte_at(msg, 5)
    return both(len(msg) >= 6, msg[0:5] == b"STATP", implies(n > 0, len(msg) >= 6 + 4 * (n - 1) + 2))


class AckSocket:
    """connection stand-in: records the acknowledgements, hands out sequence numbers by contract"""

    def __init__(self):
        self.sent = []
        self.issued = []

    def queue_send(self, handler, destination=None):
        self.sent.append((handler, destination))

    def get_and_increment_sequence_counter(self, command):
        s = fresh_int("seq")
        # contract of the counter for command == False (proved in C16)
        assume(both(not command, 1 <= s, s <= 191))
        self.issued.append(s)
        return s


def ack_post(sock):
    ensures("exactly-one-acknowledgement", both(len(sock.sent) == 1, len(sock.issued) == 1))
    h = sock.sent[0][0]
    s = sock.issued[0]
    ensures("ack-is-STATQ-with-protocol-range-sequence", both(h._content == b"STATQ" + bytes([s]), 1 <= s, s <= 191))
    ensures("ack-addressed-to-the-sender", h.parms == SENDER)


# ------------------------------------------------------------------------------ async
@loop_contract("geckolib.driver.protocol.statusblock:GeckoAsyncPartialStatusBlockProtocolHandler.async_handle", 0,
               header="for i in range(change_count)")
class async_decode_loop:
    @staticmethod
    def havoc(L, k):
        L.self.changes = decoded(L.remainder, k)

    @staticmethod
    def inv(L, k):
        return L.self.changes == decoded(L.remainder, k)


@harness(prop="C05", target="geckolib.driver.protocol.statusblock:GeckoAsyncPartialStatusBlockProtocolHandler.async_handle",
         loops=["async_decode_loop"])
async def async_message_decoded_and_acknowledged(msg: bytes, stale_pos: int, stale: bytes, had_stale: bool):
    requires(well_formed(msg))
    sock = AckSocket()
    h = GeckoAsyncPartialStatusBlockProtocolHandler(sock)
    if had_stale:
        h.changes = [(stale_pos, stale)]          # what an earlier message left behind
    await h.async_handle(msg, SENDER)
    n = byte_at(msg, 5)
    ensures("buffer-is-exactly-this-message", h.changes == decoded(msg[5:], n))
    ack_post(sock)
    cover("empty-message-after-stale-buffer", both(n == 0, had_stale))
    cover("several-records", n > 2)


class Blk:
    prev = None
    k = 0


@loop_contract("geckolib.async_spa:GeckoAsyncSpa._async_on_partial_status_update", 0, header="for change in handler.changes")
class async_apply_loop:
    """iteration k performs exactly one splice of record k (induction step of the fold)"""

    @staticmethod
    def havoc(L, k):
        b = fresh_bytes("block_before_record_k", 1024)
        L.self.struct._status_block = b
        Blk.prev = b
        Blk.k = k

    @staticmethod
    def inv(L, k):
        cur = L.self.struct.status_block
        if k == Blk.k:
            return cur == Blk.prev
        return apply_one(L, cur)


def apply_one(L, cur):
    (pos, data) = record_of(L.handler, Blk.k)
    return cur == Blk.prev[0:pos] + data + Blk.prev[pos + len(data):]


def record_of(handler, k):
    return handler.changes[k]


@harness(prop="C05", target="geckolib.async_spa:GeckoAsyncSpa._async_on_partial_status_update", loops=["async_apply_loop"])
async def async_records_applied_once_in_order(msg: bytes, block: bytes):
    requires(well_formed(msg))
    requires(len(block) == 1024)
    n = byte_at(msg, 5)
    h = GeckoAsyncPartialStatusBlockProtocolHandler(AckSocket())
    h.changes = decoded(msg[5:], n)
    spa = new(GeckoAsyncSpa)
    spa.struct = GeckoAsyncStructure(None, None)
    spa.struct.set_status_block(block)
    Blk.prev = block
    Blk.k = 0
    await spa._async_on_partial_status_update(h, SENDER)
    ensures("buffer-not-consumed-twice", h.changes == decoded(msg[5:], n))
    cover("reached-end", True)


# ---------------------------------------------------------------------------- threaded
@loop_contract("geckolib.driver.protocol.statusblock:GeckoPartialStatusBlockProtocolHandler.handle", 0,
               header="for i in range(change_count)")
class sync_decode_loop:
    @staticmethod
    def havoc(L, k):
        L.self.changes = decoded(L.remainder, k)

    @staticmethod
    def inv(L, k):
        return L.self.changes == decoded(L.remainder, k)


@harness(prop="C05", target="geckolib.driver.protocol.statusblock:GeckoPartialStatusBlockProtocolHandler.handle",
         loops=["sync_decode_loop"])
def sync_message_decoded_and_acknowledged(msg: bytes):
    """buffer invariant: empty between messages (re-established by the apply step below)"""
    requires(well_formed(msg))
    sock = AckSocket()
    h = GeckoPartialStatusBlockProtocolHandler(sock)
    ensures("buffer-empty-initially", h.changes == [])
    h.handle(msg, SENDER)
    n = byte_at(msg, 5)
    ensures("buffer-is-exactly-this-message", h.changes == decoded(msg[5:], n))
    ack_post(sock)


@loop_contract("geckolib.spa:GeckoSpa._on_partial_status_update", 0, header="for change in handler.changes")
class sync_apply_loop:
    @staticmethod
    def havoc(L, k):
        b = fresh_bytes("block_before_record_k", 1024)
        L.self.struct._status_block = b
        Blk.prev = b
        Blk.k = k

    @staticmethod
    def inv(L, k):
        cur = L.self.struct.status_block
        if k == Blk.k:
            return cur == Blk.prev
        return apply_one(L, cur)


@harness(prop="C05", target="geckolib.spa:GeckoSpa._on_partial_status_update", loops=["sync_apply_loop"])
def sync_records_applied_once_in_order_then_cleared(msg: bytes, block: bytes):
    requires(well_formed(msg))
    requires(len(block) == 1024)
    n = byte_at(msg, 5)
    h = GeckoPartialStatusBlockProtocolHandler(AckSocket())
    h.changes = decoded(msg[5:], n)
    spa = new(GeckoSpa)
    spa.struct = GeckoStructure(None)
    spa.struct.set_status_block(block)
    Blk.prev = block
    Blk.k = 0
    spa._on_partial_status_update(h, SENDER)
    ensures("buffer-empty-again-so-nothing-is-replayed", len(h.changes) == 0)
    cover("reached-end", True)


@harness(prop="C05", target="geckolib.spa:GeckoSpa._on_partial_status_update", name="sync_repeated_overlapping_positions_instance",
         note="INSTANCE (concrete positions p, p+1, p; symbolic data and block): repeated and overlapping records keep arrival order")
def sync_repeated_overlapping_positions_instance(block: bytes, d1: bytes, d2: bytes, d3: bytes):
    requires(both(len(block) == 1024, len(d1) == 2, len(d2) == 2, len(d3) == 2))
    h = GeckoPartialStatusBlockProtocolHandler(AckSocket())
    h.changes = [(365, d1), (366, d2), (365, d3)]
    spa = new(GeckoSpa)
    spa.struct = GeckoStructure(None)
    spa.struct.set_status_block(block)
    spa._on_partial_status_update(h, SENDER)
    want = block[0:365] + d1 + block[367:]
    want = want[0:366] + d2 + want[368:]
    want = want[0:365] + d3 + want[367:]
    ensures("applied-once-each-in-arrival-order", spa.struct.status_block == want)
    ensures("buffer-cleared", len(h.changes) == 0)


@harness(prop="C05", target="geckolib.async_spa:GeckoAsyncSpa._async_on_partial_status_update", name="async_repeated_overlapping_positions_instance",
         note="INSTANCE (concrete positions p, p+1, p; symbolic data and block)")
async def async_repeated_overlapping_positions_instance(block: bytes, d1: bytes, d2: bytes, d3: bytes):
    requires(both(len(block) == 1024, len(d1) == 2, len(d2) == 2, len(d3) == 2))
    h = GeckoAsyncPartialStatusBlockProtocolHandler(AckSocket())
    h.changes = [(365, d1), (366, d2), (365, d3)]
    spa = new(GeckoAsyncSpa)
    spa.struct = GeckoAsyncStructure(None, None)
    spa.struct.set_status_block(block)
    await spa._async_on_partial_status_update(h, SENDER)
    want = block[0:365] + d1 + block[367:]
    want = want[0:366] + d2 + want[368:]
    want = want[0:365] + d3 + want[367:]
    ensures("applied-once-each-in-arrival-order", spa.struct.status_block == want)


# the acknowledgement's sequence number is drawn from the connection's counter: its contract (assumed above, seq_*_contract)
# is discharged here too, on the real counter of both connection classes (shared with C16)
from contracts import c16_seq
harness(prop="C05", target="geckolib.driver.udp_socket:GeckoUdpSocket.get_and_increment_sequence_counter",
        name="threaded_counter_stays_in_the_protocol_range")(c16_seq.sync_counter_step)
harness(prop="C05", target="geckolib.driver.async_udp_protocol:GeckoAsyncUdpProtocol.get_and_increment_sequence_counter",
        name="async_counter_stays_in_the_protocol_range")(c16_seq.async_counter_step)
harness(prop="C05", target="geckolib.driver.udp_socket:GeckoUdpSocket.__init__",
        name="threaded_counter_starts_inside_its_invariant")(c16_seq.sync_init_establishes_invariant)
harness(prop="C05", target="geckolib.driver.async_udp_protocol:GeckoAsyncUdpProtocol.__init__",
        name="async_counter_starts_inside_its_invariant")(c16_seq.async_init_establishes_invariant)


# "no change is dropped / exactly one acknowledgement" also needs the dispatch around the partial handler:
# a STATP is accepted by the partial-update handlers ONLY (a pending refresh request must not swallow it; shared with C04),
# and the catch-all consumer discards a datagram only after everybody had the chance to take it (shared with C07)
from contracts import c04_wire, c07_dispatch
harness(prop="C05", target="geckolib.driver.protocol.statusblock:GeckoPartialStatusBlockProtocolHandler.report_changes",
        name="partial_update_is_claimed_by_the_partial_handlers_only")(c04_wire.partial_update_message)
harness(prop="C05", target="geckolib.driver.protocol.unhandled:GeckoUnhandledProtocolHandler.consume", loops=["unhandled_loop"],
        name="unclaimed_discard_never_takes_a_fresh_datagram")(c07_dispatch.unhandled_discards_only_after_a_full_yield)
harness(prop="C05", target="geckolib.driver.udp_protocol_handler:GeckoUdpProtocolHandler.consume", loops=["consume_loop"],
        name="partial_consumer_takes_each_datagram_once")(c07_dispatch.consumer_takes_only_what_it_accepts)


# applying a change walks every item of the structure (status_block_changed -> _get_value): the decode of every item shape is
# total -- a value outside an enum's label list reads 'Unknown', it never raises and so never aborts the apply loop (shared with C11)
def _register_decode_totality():
    from contracts import c11_facade
    harness(prop="C05", cases="c02_all_nontemp_shapes", cases_quick="c02_shape_kinds", target="geckolib.driver.accessor:GeckoStructAccessor._get_value",
            name="applying_a_change_never_raises_in_an_item_decode")(c11_facade.decode_contract_matches_the_code)


_register_decode_totality()


@harness(prop="C05", target="geckolib.driver.protocol.statusblock:GeckoAsyncPartialStatusBlockProtocolHandler.async_handle",
         loops=["async_decode_loop"], name="each_acknowledgement_goes_back_to_the_sender_of_its_message")
async def each_acknowledgement_goes_back_to_the_sender_of_its_message(m1: bytes, m2: bytes, id1: bytes, id2: bytes):
    """the long-lived async handler, two messages from two different identifier pairs: every acknowledgement is addressed to the
    sender of the message it acknowledges (nothing is remembered from the first sender)"""
    requires(both(well_formed(m1), well_formed(m2)))
    sock = AckSocket()
    h = GeckoAsyncPartialStatusBlockProtocolHandler(sock)
    s1 = ("10.0.0.9", 10022, id1, b"IOSa")
    s2 = ("10.0.0.7", 10022, id2, b"IOSb")
    await h.async_handle(m1, s1)
    await h.async_handle(m2, s2)
    ensures("one-acknowledgement-per-message", len(sock.sent) == 2)
    ensures("first-acknowledgement-addressed-to-the-first-sender", sock.sent[0][0].parms == s1)
    ensures("second-acknowledgement-addressed-to-the-second-sender", sock.sent[1][0].parms == s2)
