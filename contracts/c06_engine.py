"""C06 -- request engine: bounded retries, one request in flight, every caller completes.

Sequential clauses proved on the real functions under a ghost clock:
  * GeckoUdpProtocolHandler.wait_for_response: True only after popping a head datagram it
    can handle; False => nothing popped; returns within timeout + POLL + J.
  * GeckoAsyncUdpProtocol.get: one fresh build and one transmission per consumed retry,
    at most retry_count of them; a reply only if the last wait delivered one; elapsed
    <= retry_count x (timeout + pause + 2(POLL + J)).
  * gates of GeckoAsyncSpa: not connected or not answering pings => nothing is sent.
  * _ping_loop: the "answering pings" timestamp moves only on a delivered reply.
J (sleep overshoot) is the assumed contract of asyncio.sleep / asyncio.wait: here 0.05 s.
Mutual exclusion / FIFO service of concurrent callers rest on asyncio.Lock (ASSUMED);
the lexical obligation (every request transmission inside `async with ...Lock`) is in
pyvc/lexical.py.
"""
import asyncio

from verif_api import *
from geckolib import config
from geckolib.config import GeckoConfig
from geckolib.const import GeckoConstants
from geckolib.driver.async_udp_protocol import GeckoAsyncUdpProtocol
from geckolib.driver.udp_protocol_handler import GeckoUdpProtocolHandler
from geckolib.driver.protocol.version import GeckoVersionProtocolHandler
from geckolib.async_spa import GeckoAsyncSpa

POLL = 0.1
J = 0.05
SENDER = ("10.0.0.9", 10022, b"SPA", b"IOS")


POLL_MS = 100
J_MS = 50


def ms(t):
    """concrete seconds -> integer milliseconds (keeps the clock arithmetic exact)"""
    return round(t * 1000)


def sleep_with_bounded_overshoot(delay):
    """ASSUMED contract of asyncio.sleep(d): returns after at least d and at most d + J"""
    d = advance_clock(delay)
    assume(d * 1000 <= ms(delay) + J_MS)


class Transport:
    def __init__(self):
        self.sent = []

    def sendto(self, data, dest):
        self.sent.append((data, dest))


class G:
    retry0 = 0
    t0 = None
    builds = 0
    last_wait = None
    popped = []
    handled = []
    timeout = 0
    pause = 0


# ------------------------------------------------------------------ wait_for_response
class MonQueueProto:
    """protocol stand-in whose queue is the REAL AsyncPeekableQueue; pops are monitored"""

    def __init__(self, q):
        self.queue = q


def others_may_act(what):
    """interference at a suspension point: other tasks may append datagrams or consume the head"""
    q = G.queue
    act = fresh_int("other_tasks", 0, 2)
    act = concrete_cases(act, 0, 2)
    if act == 1:
        q.put_nowait((fresh_bytes("arrived"), SENDER))
    elif act == 2 and q.qsize() > 0:
        q.pop()


class Hnd(GeckoVersionProtocolHandler):
    """a real packet handler; records what it is asked to handle"""

    async def async_handle(self, received_bytes, sender):
        G.handled.append((received_bytes, sender))


@loop_contract("geckolib.driver.udp_protocol_handler:GeckoUdpProtocolHandler.wait_for_response", 0, header="while True")
class wait_poll_loop:
    @staticmethod
    def havoc(L):
        t = fresh_time("now")
        set_clock(t)
        q = L.protocol.queue
        q._queue.clear()
        n = fresh_int("queued", 0, 2)
        n = concrete_cases(n, 0, 2)
        for i in range(n):
            q._queue.append((fresh_bytes("dgram"), SENDER))
        q._marked = both(fresh_bool("marked"), n > 0)

    @staticmethod
    def inv(L):
        age = clock_now() - L.self._start_time
        return both(0 <= age, age * 1000 <= ms(L.self._timeout_in_seconds) + POLL_MS + J_MS, len(G.handled) == 0,
                    L.self._start_time == G.t_build)      # the timeout clock runs from the build of the request, whatever arrives


@harness(prop="C06", target="geckolib.driver.udp_protocol_handler:GeckoUdpProtocolHandler.wait_for_response",
         loops=["wait_poll_loop"], proves="wait_contract")
async def wait_returns_true_only_for_a_delivered_reply(seq: int):
    requires(both(0 <= seq, seq <= 255))
    set_sleep_model(sleep_with_bounded_overshoot)
    from geckolib.driver.async_peekablequeue import AsyncPeekableQueue
    q = AsyncPeekableQueue()
    G.queue = q
    G.handled = []
    h = Hnd(content=b"AVERS" + bytes([seq]), timeout=GeckoConfig.PROTOCOL_TIMEOUT_IN_SECONDS, parms=SENDER)
    t_start = clock_now()
    G.t_build = h._start_time
    ensures("timeout-clock-starts-at-build", G.t_build == t_start)
    proto = MonQueueProto(q)
    r = await h.wait_for_response(proto)
    elapsed = clock_now() - t_start
    ensures("returns-within-timeout-plus-one-poll", elapsed * 1000 <= ms(h._timeout_in_seconds) + POLL_MS + J_MS)
    if r:
        ensures("true-only-after-handling-exactly-one-datagram", len(G.handled) == 1)
        (data, sender) = G.handled[0]
        ensures("the-datagram-is-one-it-accepts", h.can_handle(data, sender))
    else:
        ensures("false-means-nothing-was-consumed", len(G.handled) == 0)
        ensures("false-only-after-the-timeout", elapsed > h._timeout_in_seconds)
    cover("delivered", r)
    cover("timed-out", not r)


@summary("geckolib.driver.udp_protocol_handler:GeckoUdpProtocolHandler.wait_for_response", name="wait_contract",
         note="proved by wait_returns_true_only_for_a_delivered_reply")
async def wait_contract(self, protocol):
    d = advance_clock(0)
    ensures("wait-returns-within-timeout-plus-one-poll", d * 1000 <= ms(self._timeout_in_seconds) + POLL_MS + J_MS)
    r = fresh_bool("reply_delivered")
    G.last_wait = r
    return r


# --------------------------------------------------------------------------------- get
@summary("geckolib.config:config_sleep", name="pause_contract", assumed=True,
         note="config_sleep(d) returns within d + J (asyncio.wait timeout contract, ASSUMED); may return early on a mode switch")
async def pause_contract(delay):
    d = advance_clock(0)
    ensures("pause-returns-within-delay-plus-J", d * 1000 <= ms(delay) + J_MS)


@loop_contract("geckolib.driver.async_udp_protocol:GeckoAsyncUdpProtocol.get", 0, header="while retry_count > 0")
class get_loop:
    @staticmethod
    def havoc(L):
        rc = fresh_int("retry_count")
        L.retry_count = rc
        used = G.retry0 - rc
        G.builds = used
        L.self.transport.sent = sym_list(used, lambda j: (b"", None), key=("sent",))
        set_clock(fresh_time("now"))
        G.last_wait = False

    @staticmethod
    def inv(L):
        used = G.retry0 - L.retry_count
        return both(0 <= L.retry_count, L.retry_count <= G.retry0, G.builds == used, len(L.self.transport.sent) == used,
                    clock_now() - G.t0 >= 0, within_budget(clock_now() - G.t0, used))


def within_budget(elapsed, attempts):
    """elapsed <= attempts x (timeout + pause + 2 (POLL + J)), in tenths of a second (integers only)"""
    return elapsed * 10 <= attempts * (10 * (G.timeout + G.pause) + 3)


def lock_is_free(lock):
    return (not lock.held) if SYMBOLIC else (not lock.locked())


def build_request():
    G.builds = G.builds + 1
    return GeckoVersionProtocolHandler.request(1, parms=SENDER)


@harness(prop="C06", target="geckolib.driver.async_udp_protocol:GeckoAsyncUdpProtocol.get",
         uses=["wait_contract", "pause_contract"], loops=["get_loop"])
async def get_bounded_fresh_attempts(retry0: int):
    requires(0 <= retry0)
    G.timeout = GeckoConfig.PROTOCOL_TIMEOUT_IN_SECONDS
    G.pause = GeckoConfig.PAUSE_BETWEEN_RETRIES_IN_SECONDS
    proto = GeckoAsyncUdpProtocol(None, ("10.0.0.9", 10022))
    proto.transport = Transport()
    G.retry0 = retry0
    G.builds = 0
    G.last_wait = False
    G.t0 = clock_now()
    r = await proto.get(build_request, None, retry0)
    n = len(proto.transport.sent)
    ensures("at-most-retry-count-transmissions", n <= retry0)
    ensures("each-attempt-freshly-built", G.builds == n)
    ensures("finishes-within-retry-count-x-(timeout+pause+slack)", within_budget(clock_now() - G.t0, retry0))
    if r is not None:
        ensures("reply-only-if-one-was-delivered", G.last_wait)
    else:
        ensures("failure-only-after-the-whole-budget", n == retry0)
    ensures("lock-released", lock_is_free(proto.Lock))
    cover("reply", r is not None)
    cover("gave-up", r is None)


# ------------------------------------------------------------------------------- gates
class GetRecorder:
    calls = 0


@summary("geckolib.driver.async_udp_protocol:GeckoAsyncUdpProtocol.get", name="get_recorder",
         note="recorder: counts engine calls and exercises the request factory once (the engine itself is proved above)")
async def get_recorder(self, create_func, destination=None, retry_count=10):
    GetRecorder.calls = GetRecorder.calls + 1
    req = create_func()
    self.queue_send(req, destination)
    if fresh_bool("engine_reply"):
        return req
    return None


class Desc:
    destination = ("10.0.0.9", 10022)
    identifier = b"SPA"
    name = "spa"


async def no_event(event, **kwargs):
    return None


def make_spa(connected, last_ping):
    spa = new(GeckoAsyncSpa)
    spa._observers = []
    spa.descriptor = Desc()
    spa.client_id = b"IOS"
    spa._is_connected = connected
    spa._last_ping = last_ping
    spa._event_handler = no_event
    spa.pack_type = 6
    spa.config_version = 1
    spa.log_version = 1
    proto = GeckoAsyncUdpProtocol(None, ("10.0.0.9", 10022))
    proto.transport = Transport()
    spa._protocol = proto
    return spa


def answering(spa):
    """the statement's 'answering pings': a reply within the last two ping periods"""
    if spa._last_ping is None:
        return False
    return clock_now() - spa._last_ping < GeckoConfig.PING_FREQUENCY_IN_SECONDS * 2


@harness(prop="C06", target="geckolib.async_spa:GeckoAsyncSpa.async_press", uses=["get_recorder"], name="gates_send_nothing")
async def gates_send_nothing(connected: bool, pinged: bool, which: int):
    """no command or query datagram while the spa is not connected or not answering pings"""
    requires(both(0 <= which, which <= 4))
    which = concrete_cases(which, 0, 4)
    lp = fresh_time("last_ping") if pinged else None
    spa = make_spa(connected, lp)
    GetRecorder.calls = 0
    allowed = both(connected, answering(spa))
    if which == 0:
        await spa.async_press(3)
    elif which == 1:
        await spa._on_async_set_value(300, 1, 7)
    elif which == 2:
        await spa.async_get_watercare()
    elif which == 3:
        await spa.async_set_watercare(2)
    else:
        await spa.async_get_reminders()
    sent = len(spa._protocol.transport.sent)
    ensures("nothing-sent-when-not-connected-or-not-pinging", implies(not allowed, both(sent == 0, GetRecorder.calls == 0)))
    ensures("exactly-one-engine-call-when-allowed", implies(allowed, GetRecorder.calls == 1))
    cover("blocked", not allowed)
    cover("allowed", allowed)


# --------------------------------------------------------------------------- ping loop
class Ping:
    spa = None
    before = None
    lp = None
    delivered = False
    events = []


@summary("geckolib.driver.async_udp_protocol:GeckoAsyncUdpProtocol.get", name="ping_engine",
         note="engine contract as proved above: a handler only if a reply was delivered; time passes")
async def ping_engine(self, create_func, destination=None, retry_count=10):
    advance_clock(0, 10)
    Ping.before = Ping.spa._last_ping
    req = create_func()
    if fresh_bool("ping_reply"):
        Ping.delivered = True
        return req
    Ping.delivered = False
    return None


async def ping_events(event, **kwargs):
    Ping.events.append(event)
    if not Ping.delivered:
        ensures("unanswered-ping-does-not-refresh-the-answering-timestamp", Ping.spa._last_ping == Ping.before)
    if not SYMBOLIC and len(Ping.events) > 4:
        Ping.spa._protocol.transport = None      # native replay: let the real loop end


@loop_contract("geckolib.async_spa:GeckoAsyncSpa._ping_loop", 0, header="while self.isopen")
class ping_loop_inv:
    @staticmethod
    def havoc(L):
        lp = fresh_time("last_success")
        L.self._last_ping = lp
        Ping.lp = lp
        Ping.delivered = False
        set_clock(fresh_time("now"))
        L.self._last_ping_at = None if fresh_bool("no_reply_yet") else "T"
        L.self._protocol.transport = None if fresh_bool("closed") else Transport()

    @staticmethod
    def inv(L):
        if Ping.delivered:
            return both(L.self._last_ping >= Ping.lp, clock_now() >= L.self._last_ping)
        return both(L.self._last_ping == Ping.lp, clock_now() >= L.self._last_ping)


@harness(prop="C06", target="geckolib.async_spa:GeckoAsyncSpa._ping_loop", uses=["ping_engine", "pause_contract"],
         loops=["ping_loop_inv"])
async def ping_timestamp_moves_only_on_a_reply():
    spa = make_spa(True, None)
    spa._last_ping_at = None
    spa._event_handler = ping_events
    Ping.spa = spa
    Ping.before = None
    Ping.events = []
    Ping.delivered = False
    Ping.lp = clock_now()
    await spa._ping_loop()
    cover("loop-exits-when-closed", True)


# the multi-segment block request (refresh / initial block) holds the same protocol lock as every other caller:
# "at most the retry count", "reports failure" and "all callers complete" need its retry accounting too (shared with C01)
from contracts import c01_transfer
harness(prop="C06", target="geckolib.driver.async_spastruct:GeckoAsyncStructure.get", name="block_request_spends_one_retry_per_attempt_and_terminates",
        uses=["env_any_segment_or_timeout"], loops=["get_retry_loop", "get_segment_loop"])(c01_transfer.async_transfer_all_or_nothing)


# ------------------------------------------------- "each attempt freshly built", "finishes within retry-count x (timeout + pause)":
# the request factories the engine is handed
from geckolib.driver.protocol.reminders import GeckoRemindersProtocolHandler
from geckolib.driver.protocol.watercare import GeckoWatercareProtocolHandler
from geckolib.driver.protocol.version import GeckoVersionProtocolHandler as _Ver
from geckolib.driver.protocol.getchannel import GeckoGetChannelProtocolHandler
from geckolib.driver.protocol.configfile import GeckoConfigFileProtocolHandler
from geckolib.driver.protocol.statusblock import GeckoStatusBlockProtocolHandler
from geckolib.driver.protocol.packcommand import GeckoPackCommandProtocolHandler
from contracts import c07_dispatch


class LogClass:
    begin = 256
    end = 480


@harness(prop="C06", target="geckolib.async_spa:GeckoAsyncSpa._get_status_block_handler_func", name="every_attempt_gets_a_fresh_request_with_the_configured_budget")
def every_attempt_gets_a_fresh_request_with_the_configured_budget(later: float):
    """the factories GeckoAsyncSpa hands to the engine: each call builds a NEW handler whose timeout clock starts now, with the
    configured per-attempt timeout; the request kinds built elsewhere carry the same budget (the bound of the statement
    is retry-count x (timeout + pause) with THOSE two numbers)"""
    spa = make_spa(True, None)
    spa.log_class = LogClass()
    T = GeckoConfig.PROTOCOL_TIMEOUT_IN_SECONDS
    N = GeckoConfig.PROTOCOL_RETRY_COUNT
    parms = spa.sendparms
    for make in (spa._get_version_handler_func, spa._get_channel_handler_func, spa._get_config_file_handler_func,
                 spa._get_status_block_handler_func):
        h1 = make()
        d = advance_clock(0)
        h2 = make()
        ensures("a-new-request-object-per-attempt", h1 is not h2)
        ensures("timeout-clock-of-the-new-attempt-starts-now", h2._start_time == clock_now())
        ensures("configured-timeout-and-retry-budget", both(h2._timeout_in_seconds == T, h2._retry_count == N))
    others = [GeckoRemindersProtocolHandler.request(1, parms=parms), GeckoWatercareProtocolHandler.request(1, parms=parms),
              GeckoWatercareProtocolHandler.set(1, 2, parms=parms), GeckoPackCommandProtocolHandler.keypress(192, 6, 1, parms=parms),
              GeckoPackCommandProtocolHandler.set_value(192, 6, 1, 1, 10, 1, 1, parms=parms),
              GeckoStatusBlockProtocolHandler.full_request(1, parms=parms)]
    for h in others:
        ensures("configured-timeout-and-retry-budget", both(h._timeout_in_seconds == T, h._retry_count == N))


# "returns a reply only if one was actually delivered FOR IT": a packet addressed to another client is not unwrapped (shared with C07)
harness(prop="C06", target="geckolib.async_spa:GeckoAsyncSpa._async_on_packet",
        name="a_packet_for_another_client_never_satisfies_a_request")(c07_dispatch.misaddressed_packet_has_no_effect)


# the pause between attempts (config_sleep) waits on the shared wake-up future without disturbing the other sleepers (shared with C17)
def _register_pause():
    from contracts import c17_config
    harness(prop="C06", target="geckolib.config:config_sleep", name="pausing_between_attempts_leaves_other_sleepers_alone")(
        c17_config.sleeper_waits_on_the_current_future)


_register_pause()
