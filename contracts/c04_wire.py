"""C04 -- wire format: every message round-trips and is claimed by exactly its verb.

For each message constructor: (i) the bytes equal the in.touch2 layout written here with
*literal* verbs; (ii) the peer handler decodes exactly the fields it was built from;
(iii) among all standard handler classes exactly the peer accepts it; (iv) a reply built
with parms=sender is addressed back with source / destination swapped.
Field values, identifiers and binary payloads are symbolic over their full ranges.
"""
import struct

from verif_api import *
from geckolib.driver.protocol.hello import GeckoHelloProtocolHandler
from geckolib.driver.protocol.packet import GeckoPacketProtocolHandler
from geckolib.driver.protocol.ping import GeckoPingProtocolHandler
from geckolib.driver.protocol.version import GeckoVersionProtocolHandler
from geckolib.driver.protocol.getchannel import GeckoGetChannelProtocolHandler
from geckolib.driver.protocol.configfile import GeckoConfigFileProtocolHandler
from geckolib.driver.protocol.statusblock import (
    GeckoStatusBlockProtocolHandler, GeckoPartialStatusBlockProtocolHandler,
    GeckoAsyncPartialStatusBlockProtocolHandler,
)
from geckolib.driver.protocol.packcommand import GeckoPackCommandProtocolHandler
from geckolib.driver.protocol.watercare import GeckoWatercareProtocolHandler, GeckoWatercareErrorHandler
from geckolib.driver.protocol.reminders import GeckoRemindersProtocolHandler, GeckoReminderType
from geckolib.driver.protocol.firmware import GeckoUpdateFirmwareProtocolHandler
from geckolib.driver.protocol.rferr import GeckoRFErrProtocolHandler


class NullSocket:
    def __init__(self):
        self.sent = []
        self.seq = 1

    def queue_send(self, handler, destination=None):
        self.sent.append((handler, destination))

    def get_and_increment_sequence_counter(self, command):
        return self.seq


def standard_handlers():
    return [
        ("hello", GeckoHelloProtocolHandler(b"")),
        ("packet", GeckoPacketProtocolHandler()),
        ("ping", GeckoPingProtocolHandler()),
        ("version", GeckoVersionProtocolHandler()),
        ("channel", GeckoGetChannelProtocolHandler()),
        ("configfile", GeckoConfigFileProtocolHandler()),
        ("status", GeckoStatusBlockProtocolHandler()),
        ("partial", GeckoPartialStatusBlockProtocolHandler(NullSocket())),
        ("partial-async", GeckoAsyncPartialStatusBlockProtocolHandler(NullSocket())),
        ("pack", GeckoPackCommandProtocolHandler()),
        ("watercare", GeckoWatercareProtocolHandler()),
        ("watercare-error", GeckoWatercareErrorHandler()),
        ("reminders", GeckoRemindersProtocolHandler()),
        ("firmware", GeckoUpdateFirmwareProtocolHandler()),
        ("rferr", GeckoRFErrProtocolHandler()),
    ]


def claimed_by(data):
    out = []
    for name, h in standard_handlers():
        if h.can_handle(data, None):
            out.append(name)
    return out


SENDER = ("10.1.2.3", 10022)


def u8(x):
    return both(0 <= x, x <= 255)


def u16(x):
    return both(0 <= x, x <= 65535)


def content_of(h):
    """the payload that travels inside <DATAS> .. </DATAS>"""
    return h._content


# ------------------------------------------------------------------------- framing
def frame_spec(src, dst, content):
    return b"<PACKT><SRCCN>" + src + b"</SRCCN><DESCN>" + dst + b"</DESCN><DATAS>" + content + b"</DATAS></PACKT>"


@harness(prop="C04", target="geckolib.driver.protocol.packet:GeckoPacketProtocolHandler.send_bytes")
def packet_framing_layout(src: bytes, dst: bytes, content: bytes):
    h = GeckoPacketProtocolHandler(content=content, parms=("10.1.2.3", 10022, dst, src))
    data = h.send_bytes
    ensures("layout", data == frame_spec(src, dst, content))
    ensures("claimed-by-packet-handler", GeckoPacketProtocolHandler().can_handle(data, SENDER))
    others = [n for n in claimed_by(data) if n != "packet"]
    ensures("claimed-by-no-other-handler", others == [])
    cover("non-empty-payload", len(content) > 3)


@summary("geckolib.driver.protocol.packet:GeckoPacketProtocolHandler._extract_packet_parts", name="extract_parts_contract",
         assumed=True,
         note="ASSUMED for callers; the function itself (re.search) is checked by the BOUNDED stand-in c04_packet_regex_bounded")
def extract_parts_contract(self, content):
    """ghost FRAME = (src, dst, body): for input <SRCCN>src</SRCCN><DESCN>dst</DESCN><DATAS>body</DATAS>
    (identifiers free of delimiters) the three parts are returned"""
    (src, dst, body) = FRAME[0]
    requires(content == b"<SRCCN>" + src + b"</SRCCN><DESCN>" + dst + b"</DESCN><DATAS>" + body + b"</DATAS>")
    return (src, dst, body)


FRAME = [None]


class Dispatch:
    def __init__(self):
        self.got = []

    def dispatch_recevied_data(self, data, parms):
        self.got.append((data, parms))


@harness(prop="C04", target="geckolib.driver.protocol.packet:GeckoPacketProtocolHandler.handle", uses=["extract_parts_contract"])
def reply_swaps_source_and_destination(src: bytes, dst: bytes, content: bytes, reply: bytes):
    """a reply built with parms=<received parms> goes back to the sender, identifiers swapped"""
    d = Dispatch()
    rx = GeckoPacketProtocolHandler(socket=d)
    data = frame_spec(src, dst, content)
    FRAME[0] = (src, dst, content)
    rx.handle(data, SENDER)
    ensures("dispatches-payload-once", len(d.got) == 1)
    (payload, parms) = d.got[0]
    ensures("parms-are-sender-and-identifiers", both(parms[0] == "10.1.2.3", parms[1] == 10022))
    tx = GeckoPacketProtocolHandler(content=reply, parms=parms)
    ensures("reply-swaps-identifiers", tx.send_bytes == frame_spec(dst, src, reply))


# ------------------------------------------------------------------------- simple verbs
def fb(tag):
    return fresh_int(tag, 0, 255)


def earlier_messages(name):
    """other well-formed messages the same (long-lived) handler object may have decoded before; all parameters arbitrary"""
    table = {
        "ping": lambda: [b"APING", b"APING\x00"],
        "version": lambda: [b"AVERS" + bytes([fb("e_seq")]),
                            b"SVERS" + bytes([fb("e_v1"), fb("e_v2"), fb("e_v3"), fb("e_v4"), fb("e_v5"), fb("e_v6"), fb("e_v7"), fb("e_v8")])],
        "channel": lambda: [b"CURCH" + bytes([fb("e_seq")]), b"CHCUR" + bytes([fb("e_ch"), fb("e_sig")])],
        "configfile": lambda: [b"SFILE" + bytes([fb("e_seq")])],
        "status": lambda: [b"STATU" + bytes([fb("e_seq"), fb("e_s1"), fb("e_s2"), fb("e_l1"), fb("e_l2")]),
                           b"STATV" + bytes([fb("e_idx"), fb("e_nxt"), 2, fb("e_b1"), fb("e_b2")])],
        "pack": lambda: [b"SPACK" + bytes([fb("e_seq"), fb("e_pt"), 2, 57, fb("e_key")]),
                         b"SPACK" + bytes([fb("e_seq2"), fb("e_pt2"), 6, 70, fb("e_c"), fb("e_l"), fb("e_ph"), fb("e_pl"), fb("e_d")]),
                         b"PACKS"],
        "watercare": lambda: [b"GETWC" + bytes([fb("e_seq")]), b"REQWC" + bytes([fb("e_seq2")]), b"WCGET" + bytes([fb("e_mode")])],
        "reminders": lambda: [b"REQRM" + bytes([fb("e_seq")]), b"RMREQ" + bytes([1, fb("e_d1"), fb("e_d2"), 1])],
        "firmware": lambda: [b"UPDTS" + bytes([fb("e_seq")]), b"SUPDT\x00"],
        "rferr": lambda: [b"RFERR"],
    }
    return table[name]() if name in table else []


def check_roundtrip(name, content, peer, want_fields):
    ensures("claimed-by-exactly-its-peer", claimed_by(content) == [name])
    peer.handle(content, SENDER)
    for attr, val in want_fields:
        ensures("decodes-" + attr, getattr(peer, attr) == val)
    # handler objects are long-lived (simulator, async consumers): what a message decodes to
    # does not depend on what the same object decoded before
    for earlier in earlier_messages(name):
        used = dict(standard_handlers())[name]
        used.handle(earlier, SENDER)
        used.handle(content, SENDER)
        for attr, val in want_fields:
            ensures("decodes-" + attr + "-whatever-was-decoded-before", getattr(used, attr) == val)


@harness(prop="C04", target="geckolib.driver.protocol.ping:GeckoPingProtocolHandler.request")
def ping_messages():
    req = GeckoPingProtocolHandler.request(parms=(0, 0, b"d", b"s"))
    ensures("request-layout", content_of(req) == b"APING")
    check_roundtrip("ping", content_of(req), GeckoPingProtocolHandler(), [])
    rsp = GeckoPingProtocolHandler.response(parms=(0, 0, b"d", b"s"))
    ensures("response-layout", content_of(rsp) == b"APING\x00")
    check_roundtrip("ping", content_of(rsp), GeckoPingProtocolHandler(), [("_sequence", 0)])


@harness(prop="C04", target="geckolib.driver.protocol.version:GeckoVersionProtocolHandler.request")
def version_request(seq: int):
    requires(u8(seq))
    h = GeckoVersionProtocolHandler.request(seq, parms=(0, 0, b"d", b"s"))
    ensures("layout", content_of(h) == b"AVERS" + bytes([seq]))
    check_roundtrip("version", content_of(h), GeckoVersionProtocolHandler(), [("_sequence", seq)])


@harness(prop="C04", target="geckolib.driver.protocol.version:GeckoVersionProtocolHandler.response")
def version_response(a: int, b: int, c: int, d: int, e: int, f: int):
    requires(both(u16(a), u8(b), u8(c), u16(d), u8(e), u8(f)))
    h = GeckoVersionProtocolHandler.response((a, b, c), (d, e, f), parms=(0, 0, b"d", b"s"))
    ensures("layout", content_of(h) == b"SVERS" + bytes([a // 256, a % 256, b, c, d // 256, d % 256, e, f]))
    peer = GeckoVersionProtocolHandler()
    check_roundtrip("version", content_of(h), peer,
                    [("en_build", a), ("en_major", b), ("en_minor", c), ("co_build", d), ("co_major", e), ("co_minor", f)])
    ensures("response-completes-the-request", peer.should_remove_handler)


@harness(prop="C04", target="geckolib.driver.protocol.getchannel:GeckoGetChannelProtocolHandler.request")
def channel_messages(seq: int, ch: int, sig: int):
    requires(both(u8(seq), u8(ch), u8(sig)))
    h = GeckoGetChannelProtocolHandler.request(seq, parms=(0, 0, b"d", b"s"))
    ensures("request-layout", content_of(h) == b"CURCH" + bytes([seq]))
    check_roundtrip("channel", content_of(h), GeckoGetChannelProtocolHandler(), [("_sequence", seq)])
    r = GeckoGetChannelProtocolHandler.response(ch, sig, parms=(0, 0, b"d", b"s"))
    ensures("response-layout", content_of(r) == b"CHCUR" + bytes([ch, sig]))
    check_roundtrip("channel", content_of(r), GeckoGetChannelProtocolHandler(), [("channel", ch), ("signal_strength", sig)])


@harness(prop="C04", target="geckolib.driver.protocol.statusblock:GeckoStatusBlockProtocolHandler.request")
def status_request(seq: int, start: int, length: int):
    requires(both(u8(seq), u16(start), u16(length)))
    h = GeckoStatusBlockProtocolHandler.request(seq, start, length, parms=(0, 0, b"d", b"s"))
    ensures("layout", content_of(h) == b"STATU" + bytes([seq, start // 256, start % 256, length // 256, length % 256]))
    ensures("remembers-start", h.start == start)
    check_roundtrip("status", content_of(h), GeckoStatusBlockProtocolHandler(),
                    [("sequence", seq), ("start", start), ("length", length)])


@harness(prop="C04", target="geckolib.driver.protocol.statusblock:GeckoStatusBlockProtocolHandler.full_request")
def status_full_request(seq: int):
    requires(u8(seq))
    h = GeckoStatusBlockProtocolHandler.full_request(seq, parms=(0, 0, b"d", b"s"))
    ensures("layout", content_of(h) == b"STATU" + bytes([seq, 0, 0, 4, 0]))


@harness(prop="C04", target="geckolib.driver.protocol.statusblock:GeckoStatusBlockProtocolHandler.response")
def status_segment(index: int, nxt: int, block: bytes):
    requires(both(u8(index), u8(nxt), len(block) <= 255))
    h = GeckoStatusBlockProtocolHandler.response(index, nxt, block, parms=(0, 0, b"d", b"s"))
    ensures("layout", content_of(h) == b"STATV" + bytes([index, nxt, len(block)]) + block)
    check_roundtrip("status", content_of(h), GeckoStatusBlockProtocolHandler(),
                    [("sequence", index), ("next", nxt), ("length", len(block)), ("data", block)])
    cover("payload-with-content", len(block) > 2)


@harness(prop="C04", target="geckolib.driver.protocol.statusblock:GeckoPartialStatusBlockProtocolHandler.report_changes")
def partial_update_message(p1: int, p2: int, d1: bytes, d2: bytes, seq: int):
    requires(both(u16(p1), u16(p2), len(d1) == 2, len(d2) == 2, u8(seq)))
    h = GeckoPartialStatusBlockProtocolHandler.report_changes(None, [(p1, d1), (p2, d2)], parms=(0, 0, b"d", b"s"))
    ensures("layout", content_of(h) == b"STATP\x02" + bytes([p1 // 256, p1 % 256]) + d1 + bytes([p2 // 256, p2 % 256]) + d2)
    names = claimed_by(content_of(h))
    ensures("claimed-by-exactly-the-partial-handlers", names == ["partial", "partial-async"])
    sock = NullSocket()
    sock.seq = seq
    peer = GeckoPartialStatusBlockProtocolHandler(sock)
    peer.handle(content_of(h), (0, 0, b"d", b"s"))
    ensures("decodes-changes", peer.changes == [(p1, d1), (p2, d2)])
    ensures("one-acknowledgement", len(sock.sent) == 1)
    ack = sock.sent[0][0]
    ensures("ack-layout", content_of(ack) == b"STATQ" + bytes([seq]))
    ensures("ack-claimed-by-partial-handlers", claimed_by(content_of(ack)) == ["partial", "partial-async"])
    peer2 = GeckoPartialStatusBlockProtocolHandler(NullSocket())
    peer2.handle(content_of(ack), SENDER)
    ensures("ack-decodes-sequence", peer2.sequence == seq)


@harness(prop="C04", target="geckolib.driver.protocol.packcommand:GeckoPackCommandProtocolHandler.keypress")
def pack_keypress(seq: int, pack_type: int, key: int):
    requires(both(u8(seq), u8(pack_type), u8(key)))
    h = GeckoPackCommandProtocolHandler.keypress(seq, pack_type, key, parms=(0, 0, b"d", b"s"))
    ensures("layout", content_of(h) == b"SPACK" + bytes([seq, pack_type, 2, 57, key]))
    peer = GeckoPackCommandProtocolHandler()
    check_roundtrip("pack", content_of(h), peer,
                    [("_sequence", seq), ("pack_type", pack_type), ("is_key_press", True), ("is_set_value", False), ("keycode", key)])


@harness(prop="C04", target="geckolib.driver.protocol.packcommand:GeckoPackCommandProtocolHandler.set_value")
def pack_set_value(seq: int, pack_type: int, cfg: int, log: int, pos: int, length: int, data: int):
    requires(both(1 <= length, length <= 2))
    length = concrete_cases(length, 1, 2)
    requires(both(u8(seq), u8(pack_type), u8(cfg), u8(log), u16(pos), 0 <= data, data < 256 ** length))
    h = GeckoPackCommandProtocolHandler.set_value(seq, pack_type, cfg, log, pos, length, data, parms=(0, 0, b"d", b"s"))
    word = bytes([data]) if length == 1 else bytes([data // 256, data % 256])
    ensures("layout", content_of(h) == b"SPACK" + bytes([seq, pack_type, 5 + length, 70, cfg, log, pos // 256, pos % 256]) + word)
    peer = GeckoPackCommandProtocolHandler()
    check_roundtrip("pack", content_of(h), peer,
                    [("_sequence", seq), ("pack_type", pack_type), ("is_set_value", True), ("is_key_press", False),
                     ("position", pos), ("new_data", word)])


@harness(prop="C04", target="geckolib.driver.protocol.packcommand:GeckoPackCommandProtocolHandler.response")
def pack_response():
    h = GeckoPackCommandProtocolHandler.response(parms=(0, 0, b"d", b"s"))
    ensures("layout", content_of(h) == b"PACKS")
    peer = GeckoPackCommandProtocolHandler()
    check_roundtrip("pack", content_of(h), peer, [])
    ensures("response-completes-the-request", peer.should_remove_handler)


@harness(prop="C04", target="geckolib.driver.protocol.watercare:GeckoWatercareProtocolHandler.request")
def watercare_messages(seq: int, mode: int):
    requires(both(u8(seq), u8(mode)))
    h = GeckoWatercareProtocolHandler.request(seq, parms=(0, 0, b"d", b"s"))
    ensures("request-layout", content_of(h) == b"GETWC" + bytes([seq]))
    p = GeckoWatercareProtocolHandler()
    check_roundtrip("watercare", content_of(h), p, [("_sequence", seq), ("schedule", False)])
    r = GeckoWatercareProtocolHandler.response(mode, parms=(0, 0, b"d", b"s"))
    ensures("response-layout", content_of(r) == b"WCGET" + bytes([mode]))
    p2 = GeckoWatercareProtocolHandler()
    check_roundtrip("watercare", content_of(r), p2, [("mode", mode), ("schedule", False)])
    s = GeckoWatercareProtocolHandler.set(seq, mode, parms=(0, 0, b"d", b"s"))
    ensures("set-layout", content_of(s) == b"SETWC" + bytes([seq, mode]))


@harness(prop="C04", target="geckolib.driver.protocol.watercare:GeckoWatercareProtocolHandler.set", name="watercare_set_is_claimed")
def watercare_set_is_claimed(seq: int, mode: int):
    requires(both(u8(seq), u8(mode)))
    s = GeckoWatercareProtocolHandler.set(seq, mode, parms=(0, 0, b"d", b"s"))
    known_finding("C04:SETWC-unclaimed", True)
    ensures("set-claimed-by-exactly-its-peer", claimed_by(content_of(s)) == ["watercare"])


@harness(prop="C04", target="geckolib.driver.protocol.watercare:GeckoWatercareProtocolHandler.giveschedule", name="watercare_schedule_is_claimed")
def watercare_schedule_is_claimed():
    s = GeckoWatercareProtocolHandler.giveschedule(parms=(0, 0, b"d", b"s"))
    ensures("layout-verb", content_of(s)[0:5] == b"WCREQ")
    known_finding("C04:WCREQ-unclaimed", True)
    ensures("schedule-claimed-by-exactly-its-peer", claimed_by(content_of(s)) == ["watercare"])


@harness(prop="C04", target="geckolib.driver.protocol.watercare:GeckoWatercareProtocolHandler.handle", name="watercare_other_verbs")
def watercare_other_verbs(seq: int):
    requires(u8(seq))
    p = GeckoWatercareProtocolHandler()
    check_roundtrip("watercare", b"REQWC" + bytes([seq]), p, [("_sequence", seq), ("schedule", True)])
    p2 = GeckoWatercareProtocolHandler()
    check_roundtrip("watercare", b"WCSET", p2, [])
    ensures("set-acknowledged-completes", p2.should_remove_handler)
    ensures("error-verb-claimed-by-error-handler", claimed_by(b"WCERR") == ["watercare-error"])


@harness(prop="C04", target="geckolib.driver.protocol.reminders:GeckoRemindersProtocolHandler.response")
def reminders_messages(seq: int, t1: int, d1: int, t2: int, d2: int):
    requires(both(u8(seq), 0 <= t1, t1 <= 6, 0 <= t2, t2 <= 6, -32768 <= d1, d1 <= 32767, -32768 <= d2, d2 <= 32767))
    h = GeckoRemindersProtocolHandler.request(seq, parms=(0, 0, b"d", b"s"))
    ensures("request-layout", content_of(h) == b"REQRM" + bytes([seq]))
    check_roundtrip("reminders", content_of(h), GeckoRemindersProtocolHandler(), [("_sequence", seq)])
    t1 = concrete_cases(t1, 0, 6)
    t2 = concrete_cases(t2, 0, 6)
    r = GeckoRemindersProtocolHandler.response([(GeckoReminderType(t1), d1), (GeckoReminderType(t2), d2)], parms=(0, 0, b"d", b"s"))
    ensures("response-layout", content_of(r) == b"RMREQ" + bytes([t1, d1 % 256, (d1 // 256) % 256, 1, t2, d2 % 256, (d2 // 256) % 256, 1]))
    peer = GeckoRemindersProtocolHandler()
    check_roundtrip("reminders", content_of(r), peer, [])
    ensures("decodes-reminders", peer.reminders == [(GeckoReminderType(t1), d1), (GeckoReminderType(t2), d2)])
    cover("negative-days", d1 < 0)


@harness(prop="C04", target="geckolib.driver.protocol.firmware:GeckoUpdateFirmwareProtocolHandler.request")
def firmware_messages(seq: int):
    requires(u8(seq))
    h = GeckoUpdateFirmwareProtocolHandler.request(seq, parms=(0, 0, b"d", b"s"))
    ensures("request-layout", content_of(h) == b"UPDTS" + bytes([seq]))
    check_roundtrip("firmware", content_of(h), GeckoUpdateFirmwareProtocolHandler(), [("_sequence", seq)])
    r = GeckoUpdateFirmwareProtocolHandler.response(parms=(0, 0, b"d", b"s"))
    ensures("response-layout", content_of(r) == b"SUPDT\x00")
    peer = GeckoUpdateFirmwareProtocolHandler()
    check_roundtrip("firmware", content_of(r), peer, [])
    ensures("response-completes", peer.should_remove_handler)


@harness(prop="C04", target="geckolib.driver.protocol.rferr:GeckoRFErrProtocolHandler.response")
def rferr_message():
    r = GeckoRFErrProtocolHandler.response(parms=(0, 0, b"d", b"s"))
    ensures("layout", content_of(r) == b"RFERR")
    peer = GeckoRFErrProtocolHandler()
    check_roundtrip("rferr", content_of(r), peer, [])
    ensures("counts-the-error", peer.total_error_count == 1)


@harness(prop="C04", target="geckolib.driver.protocol.configfile:GeckoConfigFileProtocolHandler.request")
def configfile_request(seq: int):
    requires(u8(seq))
    h = GeckoConfigFileProtocolHandler.request(seq, parms=(0, 0, b"d", b"s"))
    ensures("layout", content_of(h) == b"SFILE" + bytes([seq]))
    check_roundtrip("configfile", content_of(h), GeckoConfigFileProtocolHandler(), [("_sequence", seq)])


# ------------------------------------------------------------------------------- hello
@harness(prop="C04", target="geckolib.driver.protocol.hello:GeckoHelloProtocolHandler.broadcast")
def hello_broadcast_and_client(uuid: bytes):
    b = GeckoHelloProtocolHandler.broadcast()
    ensures("broadcast-layout", b.send_bytes == b"<HELLO>1</HELLO>")
    ensures("claimed-by-hello-only", claimed_by(b.send_bytes) == ["hello"])
    p = GeckoHelloProtocolHandler(b"")
    p.handle(b.send_bytes, SENDER)
    ensures("decodes-broadcast", p.was_broadcast_discovery)
    cid = b"IOS" + uuid
    c = GeckoHelloProtocolHandler.client(cid)
    ensures("client-layout", c.send_bytes == b"<HELLO>" + cid + b"</HELLO>")
    ensures("client-claimed-by-hello", GeckoHelloProtocolHandler(b"").can_handle(c.send_bytes, SENDER))
    p2 = GeckoHelloProtocolHandler(b"")
    p2.handle(c.send_bytes, SENDER)
    ensures("decodes-client-identifier", both(not p2.was_broadcast_discovery, p2.client_identifier == cid))


def no_bar(b):
    return forall_int(0, len(b), lambda i: byte_at(b, i) != 124)


@harness(prop="C04", target="geckolib.driver.protocol.hello:GeckoHelloProtocolHandler.response")
def hello_response_roundtrip(ident: bytes, name: bytes):
    """spa identifier (no separator, 'SPA..' style) and ANY latin-1 name incl. '|'"""
    requires(len(ident) >= 3)
    requires(both(byte_at(ident, 0) == 83, byte_at(ident, 1) == 80, byte_at(ident, 2) == 65))
    requires(no_bar(ident))
    text = name.decode("latin1")
    h = GeckoHelloProtocolHandler.response(ident, text)
    ensures("layout", h.send_bytes == b"<HELLO>" + ident + b"|" + name + b"</HELLO>")
    ensures("claimed-by-hello", GeckoHelloProtocolHandler(b"").can_handle(h.send_bytes, SENDER))
    p = GeckoHelloProtocolHandler(b"")
    p.handle(h.send_bytes, SENDER)
    ensures("decodes-identifier", p.spa_identifier == ident)
    ensures("decodes-name", p.spa_name == text)
    cover("name-with-separator", both(len(name) > 2, byte_at(name, 1) == 124))


@harness(prop="C04", cases="c04_platforms", target="geckolib.driver.protocol.configfile:GeckoConfigFileProtocolHandler.response")
def configfile_response_shipped(plat):
    """every shipped platform x config version x log version: FILES message round-trips
    and names table modules that exist (ground, enumerated completely)"""
    name = plat["name"]
    for cv in plat["cfg"]:
        for lv in plat["log"]:
            h = GeckoConfigFileProtocolHandler.response(name, cv, lv, parms=(0, 0, b"d", b"s"))
            want = ("FILES,%s_C%02d.xml,%s_S%02d.xml" % (name, cv, name, lv)).encode("latin1")
            ensures("layout", content_of(h) == want)
            peer = GeckoConfigFileProtocolHandler()
            ensures("claimed-by-exactly-its-peer", claimed_by(content_of(h)) == ["configfile"])
            peer.handle(content_of(h), SENDER)
            ensures("decodes-platform-and-versions",
                    both(peer.plateform_key == name, peer.config_version == cv, peer.log_version == lv))
            ensures("names-the-table-modules", peer.plateform_key.lower() == plat["platform"])
            ensures("response-completes-the-request", peer.should_remove_handler)
    if plat["platform"] == "mrsteam":
        peer = GeckoConfigFileProtocolHandler()
        peer.handle(b"FILES,MrSt_C01.xml,MrSt_S01.xml", SENDER)
        ensures("short-name-a-spa-reports-is-mapped", peer.plateform_key.lower() == "mrsteam")
    cover("reached-end", True)


@harness(prop="C04", target="geckolib.const:GeckoConstants", name="wire_text_encoding_maps_every_byte_to_itself")
def wire_text_encoding_maps_every_byte_to_itself():
    """identifiers and names travel as single bytes: the message encoding is the identity between byte values and code
    points 0..255 (ground: all 256 values both ways through CPython's codec) -- the symbolic string model relies on it"""
    from geckolib.const import GeckoConstants
    enc = GeckoConstants.MESSAGE_ENCODING
    for b in range(256):
        ensures("byte-decodes-to-its-own-code-point", bytes([b]).decode(enc) == chr(b))
        ensures("code-point-encodes-to-its-own-byte", chr(b).encode(enc) == bytes([b]))
    cover("reached-end", True)


ALL_VERBS = [b"APING", b"AVERS", b"SVERS", b"CURCH", b"CHCUR", b"SFILE", b"FILES", b"STATU", b"STATV", b"STATP", b"STATQ", b"SPACK", b"PACKS",
             b"GETWC", b"WCGET", b"SETWC", b"WCSET", b"REQWC", b"WCREQ", b"WCERR", b"REQRM", b"RMREQ", b"UPDTS", b"SUPDT", b"RFERR", b"<HELLO>1</HELLO>"]


@harness(prop="C04", target="geckolib.driver.protocol.packet:GeckoPacketProtocolHandler.can_handle", name="frame_carrying_any_verb_is_claimed_by_the_packet_handler_only")
def frame_carrying_any_verb_is_claimed_by_the_packet_handler_only():
    """ground over the verb table: a framed packet whose payload is (or contains, after a few arbitrary bytes) any protocol verb is
    accepted by the packet handler and by no verb handler -- their acceptance tests look at the START of a datagram only"""
    for verb in ALL_VERBS:
        for payload in (verb, b"x" + verb, verb + b"\x01\x02", b"\x00\x01" + verb + b"\xff"):
            data = frame_spec(b"SPAx", b"IOSx", payload)
            ensures("claimed-by-the-packet-handler-only", claimed_by(data) == ["packet"])
    cover("reached-end", True)



@harness(prop="C04", target="geckolib.driver.protocol.watercare:GeckoWatercareErrorHandler.can_handle", name="a_datagram_belongs_to_the_handler_of_its_leading_verb_only")
def a_datagram_belongs_to_the_handler_of_its_leading_verb_only():
    """ground over the verb table: what a datagram CONTAINS after its verb (payload bytes that spell another verb) never makes
    another handler accept it, and a truncated verb is accepted by nobody"""
    for verb in ALL_VERBS:
        owners = claimed_by(verb + b"\x01\x02\x03")
        for other in ALL_VERBS:
            if other is not verb:
                ensures("payload-spelling-another-verb-changes-nothing:" + verb.decode("latin1"),
                        claimed_by(verb + b"\x01\x02\x03" + other + b"\x04") == owners)
        for cut in range(1, len(verb)):
            ensures("truncated-verb-is-claimed-by-nobody:" + verb.decode("latin1"), claimed_by(verb[0:cut]) == [])
    cover("reached-end", True)


def _register_sequence_byte_layout():
    from contracts import c16_seq
    harness(prop="C04", target="geckolib.driver.protocol.firmware:GeckoUpdateFirmwareProtocolHandler.request",
            name="sequence_number_is_one_byte_for_every_request_kind")(c16_seq.every_request_kind_puts_its_number_into_one_byte)


_register_sequence_byte_layout()
