"""C12 -- device inventory equals the spa's output wiring, with unique keys.

Spec (from the statement):  device d is wired  <=>  some output item o reads a value != 'NA'
that denotes d (starts with d's name).  The facade exposes exactly the wired devices for which
a user demand Ud<d> exists and that the library knows (GeckoConstants.DEVICES) -- once each,
in table order, with the right class, demand item and mode list -- plus the sensors whose items
exist.  Membership of every element of the facade's device lists is a *guard* (the engine's
guarded lists); each guard is proved equivalent to the spec's wiring condition for every block.
"""
from verif_api import *
from geckolib.const import GeckoConstants
from geckolib.automation.async_facade import GeckoAsyncFacade
from geckolib.automation.pump import GeckoPump
from geckolib.automation.blower import GeckoBlower
from geckolib.automation.light import GeckoLight
from contracts.c11_facade import connected_spa, TaskMan, get_value_contract, temperature_is_some_finite_number


# the in.touch2 user devices, written out literally (a consistent corruption of the library's own table must not pass)
SPEC_DEVICES = {
    "P1": ("Pump 1", 1, "P1", "PUMP"),
    "P2": ("Pump 2", 2, "P2", "PUMP"),
    "P3": ("Pump 3", 3, "P3", "PUMP"),
    "P4": ("Pump 4", 4, "P4", "PUMP"),
    "P5": ("Pump 5", 5, "P5", "PUMP"),
    "BL": ("Blower", 6, "BL", "BLOWER"),
    "Waterfall": ("Waterfall", 23, "Waterfall", "PUMP"),
    "LI": ("Lights", 16, "UdLi", "LIGHT"),
}


@harness(prop="C12", target="geckolib.const:GeckoConstants", name="device_table_is_the_published_one")
def device_table_is_the_published_one():
    ensures("same-devices-in-the-same-order", list(GeckoConstants.DEVICES) == list(SPEC_DEVICES))
    for k in SPEC_DEVICES:
        ensures("device-row:" + k, k in GeckoConstants.DEVICES and tuple(GeckoConstants.DEVICES[k]) == SPEC_DEVICES[k])


def wired(spa, d):
    """some output is connected (not 'NA') to something that denotes device d"""
    w = False
    for o in spa.struct.all_outputs:
        v = spa.accessors[o].value
        w = either(w, both(v != "NA", v.startswith(d)))
    return w


def demand_of(spa, d):
    for ud in spa.struct.user_demands:
        if ("Ud%s" % d).upper() == ud.upper():
            return ud
    return None


def expected_devices(spa):
    """(device, demand item, class) in table order for every device that can be exposed at all"""
    out = []
    for d in spa.struct.all_devices:
        ud = demand_of(spa, d)
        if ud is None or d not in SPEC_DEVICES:
            continue
        out.append((d, ud, SPEC_DEVICES[d][3]))
    return out


def check_list(spa, lst, cls, devclass, expected, ordered=True):
    """`lst` is a guarded list: entry i = (presence guard g_i, device).  The same device may sit in several entries (code that
    appends 'if not already in the list' produces one entry per output that could wire it) -- what counts is which
    devices are PRESENT together."""
    want = [e for e in expected if e[2] == devclass]
    got = members(lst)
    want_keys = [e[0] for e in want]
    for (g, dev) in got:
        ensures("only-exposable-devices", dev.key in want_keys)
    rank = {}
    for k in want_keys:
        rank[k] = len(rank)
    for i in range(len(got)):
        for j in range(i + 1, len(got)):
            (gi, di) = got[i]
            (gj, dj) = got[j]
            if di.key == dj.key:
                ensures("each-device-at-most-once", not both(gi, gj))
            elif ordered and di.key in rank and dj.key in rank and rank[di.key] > rank[dj.key]:
                ensures("present-devices-are-in-table-order", not both(gi, gj))
    for (d, ud, c) in want:
        entries = [m for m in got if m[1].key == d]
        if len(entries) == 0:
            ensures("omitted-only-when-never-wired", not wired(spa, d))
            continue
        present = either(*([m[0] for m in entries] + [False]))
        ensures("exposed-exactly-when-wired", present == wired(spa, d))
        for (g, dev) in entries:
            ensures("right-class", type(dev) is cls)
            ensures("named-and-keyed-from-the-device-table",
                    both(dev.name == SPEC_DEVICES[d][0], dev.key == d, dev.device_class == devclass, dev._keypad_button == SPEC_DEVICES[d][1],
                         dev._state_sensor.accessor is spa.accessors[SPEC_DEVICES[d][2]]))
            if cls is GeckoPump:
                ensures("demand-item-and-mode-list", both(dev._user_demand["demand"] == spa.accessors[ud].tag, dev.modes == spa.accessors[ud].items))


@harness(prop="C12", cases="c11_representatives", cases_quick="c11_quick",
         target="geckolib.automation.async_facade:GeckoAsyncFacade._scan_outputs",
         uses=["get_value_contract", "temperature_is_some_finite_number"], timeout=120)
def inventory_equals_output_wiring(combo, block: bytes):
    requires(len(block) == 1024)
    enable_guarded_collections()
    spa = connected_spa(combo, block)
    acc = spa.accessors
    # combinations on which no facade can be built are C11 findings: outside this property's reach
    exclude_case_unless(GeckoConstants.KEY_TEMP_UNITS in acc and GeckoConstants.KEY_SETPOINT_G in acc
                        and GeckoConstants.KEY_DISPLAYED_TEMP_G in acc and GeckoConstants.KEY_REAL_SETPOINT_G in acc
                        and GeckoConstants.KEY_ECON_ACTIVE in acc)
    f = GeckoAsyncFacade(spa, TaskMan())
    exp = expected_devices(spa)
    # the device universe is the statement's (pumps, waterfall, blower, lights), not whatever the table lists: a device the
    # table's device list leaves out (or misspells) although it has a demand item must never be wired
    for d in SPEC_DEVICES:
        if d not in spa.struct.all_devices and demand_of(spa, d) is not None:
            ensures("no-wirable-device-is-missing-from-the-table's-device-list:" + d, not wired(spa, d))
    check_list(spa, f._pumps, GeckoPump, GeckoConstants.DEVICE_CLASS_PUMP, exp)
    check_list(spa, f._blowers, GeckoBlower, GeckoConstants.DEVICE_CLASS_BLOWER, exp)
    check_list(spa, f._lights, GeckoLight, GeckoConstants.DEVICE_CLASS_LIGHT, exp)
    ensures("sensors-whose-items-exist", [s.name for s in f.sensors] == [s[0] for s in GeckoConstants.SENSORS if s[1] in acc])
    ensures("binary-sensors-whose-items-exist",
            [s.name for s in f.binary_sensors] == [s[0] for s in GeckoConstants.BINARY_SENSORS if s[1] in acc])
    alld = members(f.all_automation_devices)
    for i in range(len(alld)):
        for j in range(i + 1, len(alld)):
            if alld[i][1].key == alld[j][1].key:
                ensures("automation-keys-are-distinct", not both(alld[i][0], alld[j][0]))
            if alld[i][1].unique_id == alld[j][1].unique_id:
                ensures("unique-ids-are-distinct", not both(alld[i][0], alld[j][0]))
    for (g, dev) in members(f.all_automation_devices):
        if not is_symbolic(g):
            ensures("lookup-by-key-returns-that-device", f.get_device(dev.key) is dev)
    cover("reached-end", True)


@harness(prop="C12", cases="c11_representatives", cases_quick="c11_quick",
         target="geckolib.automation.async_facade:GeckoAsyncFacade.get_device", name="lookup_of_a_wired_device",
         uses=["get_value_contract", "temperature_is_some_finite_number"], timeout=120)
def lookup_of_a_wired_device(combo, block: bytes):
    """looking a user device up by its key returns that device exactly when it is wired"""
    requires(len(block) == 1024)
    enable_guarded_collections()
    spa = connected_spa(combo, block)
    acc = spa.accessors
    exclude_case_unless(GeckoConstants.KEY_TEMP_UNITS in acc and GeckoConstants.KEY_SETPOINT_G in acc
                        and GeckoConstants.KEY_DISPLAYED_TEMP_G in acc and GeckoConstants.KEY_REAL_SETPOINT_G in acc
                        and GeckoConstants.KEY_ECON_ACTIVE in acc)
    f = GeckoAsyncFacade(spa, TaskMan())
    exp = expected_devices(spa) + [("no such device", None, None)]
    k = fresh_int("device", 0, len(exp) - 1)
    k = concrete_cases(k, 0, len(exp) - 1)
    (d, ud, c) = exp[k]
    dev = f.get_device(d)
    if dev is None:
        ensures("absent-only-when-not-wired", True if ud is None else not wired(spa, d))
    else:
        ensures("present-only-when-wired-and-it-is-that-device", both(wired(spa, d), dev.key == d))
    cover("reached-end", True)


# ------------------------------------------------------------------ the blocking facade
from geckolib.automation.facade import GeckoFacade


class SyncDescriptor:
    name = "My Spa"
    identifier_as_string = "SPA01:02:03:04:05:06"


@harness(prop="C12", cases="c11_representatives", cases_quick="c11_quick",
         target="geckolib.automation.facade:GeckoFacade.scan_outputs", name="sync_inventory_equals_output_wiring",
         uses=["get_value_contract", "temperature_is_some_finite_number"], timeout=120)
def sync_inventory_equals_output_wiring(combo, block: bytes):
    """the blocking facade's own copy of the output scan (iteration order of its set() is unspecified: order not claimed)"""
    requires(len(block) == 1024)
    enable_guarded_collections()
    spa = connected_spa(combo, block)
    spa.descriptor = SyncDescriptor()
    acc = spa.accessors
    exclude_case_unless(GeckoConstants.KEY_TEMP_UNITS in acc)
    f = new(GeckoFacade)
    f._observers = []
    f._spa = spa
    f._ecomode = None
    f.scan_outputs()
    exp = expected_devices(spa)
    check_list(spa, f._pumps, GeckoPump, GeckoConstants.DEVICE_CLASS_PUMP, exp, False)
    check_list(spa, f._blowers, GeckoBlower, GeckoConstants.DEVICE_CLASS_BLOWER, exp, False)
    check_list(spa, f._lights, GeckoLight, GeckoConstants.DEVICE_CLASS_LIGHT, exp, False)
    ensures("sensors-whose-items-exist", [s.name for s in f.sensors] == [s[0] for s in GeckoConstants.SENSORS if s[1] in acc])
    ensures("binary-sensors-whose-items-exist",
            [s.name for s in f.binary_sensors] == [s[0] for s in GeckoConstants.BINARY_SENSORS if s[1] in acc])
    cover("reached-end", True)


@harness(prop="C12", cases="c11_quick", target="geckolib.driver.spastruct:GeckoStructure.build_accessors", name="rebuilding_the_accessors_on_a_reconnect_changes_nothing")
def rebuilding_the_accessors_on_a_reconnect_changes_nothing(combo, async_class: bool):
    """the blocking client keeps ONE structure for its whole life and rebuilds the accessors on every (re)connect: the lists the
    facade scans (outputs, devices, user demands, error keys) are the tables', however often that happened before"""
    import importlib
    from geckolib.driver.spastruct import GeckoStructure
    from geckolib.driver.async_spastruct import GeckoAsyncStructure
    st = GeckoAsyncStructure(None, None) if async_class else GeckoStructure(None)
    cfg = importlib.import_module("geckolib.driver.packs.%s-cfg-%d" % (combo["platform"], combo["cfg"])).GeckoConfigStruct(st)
    log = importlib.import_module("geckolib.driver.packs.%s-log-%d" % (combo["platform"], combo["log"])).GeckoLogStruct(st)
    for attempt in range(3):
        st.build_accessors(cfg, log)
        ensures("lists-are-the-tables'", both(list(st.all_outputs) == list(cfg.output_keys), list(st.all_devices) == list(log.all_device_keys),
                                             list(st.user_demands) == list(log.user_demand_keys), list(st.error_keys) == list(log.error_keys)))
        ensures("one-accessor-per-item", len(st.accessors) == len(dict(cfg.accessors, **log.accessors)))
