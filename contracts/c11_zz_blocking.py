"""C11 -- the blocking facade's output scan must not raise either (contract shared with C12; kept in its own sidecar
because c12_inventory itself builds on c11_facade)."""
from verif_api import *
from contracts import c12_inventory

harness(prop="C11", cases="c11_representatives", cases_quick="c11_quick", target="geckolib.automation.facade:GeckoFacade.scan_outputs",
        name="blocking_facade_scan_never_raises", uses=["get_value_contract", "temperature_is_some_finite_number"],
        timeout=120)(c12_inventory.sync_inventory_equals_output_wiring)
