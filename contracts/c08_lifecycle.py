"""C08 -- lifecycle follows the state table; facade-ready / teardown are well-bracketed.

LIFECYCLE (written from the statement and the state / event docstrings) is compared with
the real GeckoAsyncSpaMan._handle_event for EVERY event in EVERY manager state that
satisfies the representation invariant
    INV:  CONNECTED <=> a facade-ready is outstanding (ghost bracket == 1)
          CONNECTED  => facade and spa present;   facade present => spa present
and INV is shown to be preserved (induction over the event history).  What a client may
rely on is asserted at the delivery point, i.e. on entry of the abstract handle_event.
Events raised by *other tasks* while a client handler is suspended are not explored.
"""
from verif_api import *
from geckolib.async_spa_manager import GeckoAsyncSpaMan
from geckolib.async_spa import GeckoAsyncSpa
from geckolib.async_locator import GeckoAsyncLocator
from geckolib.automation.async_facade import GeckoAsyncFacade
from geckolib.spa_events import GeckoSpaEvent as E
from geckolib.spa_state import GeckoSpaState as S


class Man(GeckoAsyncSpaMan):
    """a client: records deliveries and asserts what it may rely on when an event is delivered"""

    async def handle_event(self, event, **kwargs):
        self.deliveries.append(event)
        if self._status_sensor is not None:
            ensures("status-text-mirrors-the-state", self._status_sensor.state == S.to_string(self._spa_state))
        if self._spa_state == S.CONNECTED:
            ensures("connected-only-with-a-live-facade", both(self._facade is not None, self._spa is not None))
        if event == E.CLIENT_FACADE_IS_READY:
            ensures("facade-ready-exactly-when-connected-is-entered", both(self._spa_state == S.CONNECTED, self.entered_connected,
                                                                            self._facade is not None))
            self.bracket = 1
        if event == E.CLIENT_FACADE_TEARDOWN:
            ensures("teardown-at-most-once-per-ready-and-only-while-a-facade-exists",
                    both(self.bracket == 1, self._facade is not None))
            self.bracket = 0
        if event == E.CONNECTION_FINISHED:
            ensures("finished-reports-the-facade", kwargs["facade"] is self._facade)


class WaterCare:
    def __init__(self):
        self.modes = []

    def change_watercare_mode(self, m):
        self.modes.append(m)


class Facade:
    def __init__(self):
        self.disconnected = 0
        self._water_care = WaterCare()

    async def disconnect(self):
        self.disconnected = self.disconnected + 1


class Spa:
    """the spa as the manager sees it; disconnect() reports RUNNING_SPA_DISCONNECTED like the real one"""

    def __init__(self, man, connected):
        self.man = man
        self.is_connected = connected
        self.signal = 50
        self.channel = 5
        self.last_ping_at = None
        self.disconnected = 0
        self.watchers = []

    def watch(self, o):
        self.watchers.append(o)

    async def async_get_watercare(self):
        return 1

    async def disconnect(self):
        self.is_connected = False
        self.disconnected = self.disconnected + 1
        await self.man._handle_event(E.RUNNING_SPA_DISCONNECTED)


def make_man(state, with_facade, with_spa, configured, sensors):
    m = new(Man)
    m._tasks = []
    m._client_id = b"IOSx"
    m._spa_address = None
    m._spa_identifier = "SPA1" if configured else None
    m._spa_name = "spa" if configured else None
    m._spa_descriptors = []
    m._facade = Facade() if with_facade else None
    m._spa = Spa(m, state in (S.CONNECTED, S.SPA_READY, S.ERROR_PING_MISSED, S.ERROR_RF_FAULT)) if with_spa else None
    m._spa_state = state
    m._status_sensor = None
    m._reconnect_button = None
    m._ping_sensor = None
    m._radio_sensor = None
    m._channel_sensor = None
    if sensors and with_spa and configured:
        m._radio_sensor = GeckoAsyncSpaMan.RadioConnectionSensor(m)
        m._channel_sensor = GeckoAsyncSpaMan.RadioChannelSensor(m)
    m.deliveries = []
    m.bracket = 1 if state == S.CONNECTED else 0
    m.entered_connected = state != S.CONNECTED     # ghost: set by the harness, True iff this event may enter CONNECTED
    return m


ALL_STATES = [S.IDLE, S.LOCATING_SPAS, S.LOCATED_SPAS, S.CONNECTING, S.SPA_READY, S.CONNECTED, S.ERROR_SPA_NOT_FOUND,
              S.ERROR_NEEDS_ATTENTION, S.ERROR_PING_MISSED, S.ERROR_RF_FAULT]
ERROR_STATES = (S.ERROR_PING_MISSED, S.ERROR_RF_FAULT, S.ERROR_NEEDS_ATTENTION)
SPA_EVENTS = (E.RUNNING_PING_RECEIVED, E.RUNNING_PING_MISSED, E.RUNNING_PING_NO_RESPONSE, E.RUNNING_SPA_DISCONNECTED,
              E.RUNNING_SPA_WATER_CARE_ERROR, E.RUNNING_SPA_PACK_REFRESHED, E.ERROR_RF_ERROR, E.ERROR_TOO_MANY_RF_ERRORS,
              E.ERROR_PROTOCOL_RETRY_COUNT_EXCEEDED, E.CONNECTION_GOT_CHANNEL, E.CONNECTION_GOT_FIRMWARE_VERSION,
              E.CONNECTION_GOT_CONFIG_FILES, E.CONNECTION_INITIAL_DATA_BLOCK_REQUEST, E.CONNECTION_SPA_COMPLETE,
              E.CONNECTION_PROTOCOL_RETRY_COUNT_EXCEEDED, E.CONNECTION_CANNOT_FIND_LOG_VERSION,
              E.CONNECTION_CANNOT_FIND_CONFIG_VERSION, E.CONNECTION_CANNOT_FIND_SPA_PACK)


def lifecycle(state, event, has_facade):
    """(next state, nested client events, reset?)  -- the lifecycle table of the statement"""
    if event == E.LOCATING_STARTED:
        return (S.LOCATING_SPAS, [], False)
    if event == E.LOCATING_FINISHED:
        return (S.LOCATED_SPAS, [], False)
    if event == E.SPA_NOT_FOUND:
        return (S.ERROR_SPA_NOT_FOUND, [], False)
    if event == E.CONNECTION_STARTED:
        return (S.CONNECTING, [E.CLIENT_HAS_RECONNECT_BUTTON], False)
    if event == E.CONNECTION_GOT_CHANNEL:
        return (state, [E.CLIENT_HAS_PING_SENSOR], False)
    if event == E.CONNECTION_SPA_COMPLETE:
        return (S.SPA_READY, [], False)
    if event == E.CONNECTION_FINISHED:
        if has_facade:
            return (S.CONNECTED, [E.CLIENT_FACADE_IS_READY], False)
        return (state, [], False)
    if event in (E.RUNNING_PING_NO_RESPONSE, E.ERROR_RF_ERROR, E.RUNNING_SPA_DISCONNECTED):
        if state == S.CONNECTED:
            nxt = {E.RUNNING_PING_NO_RESPONSE: S.ERROR_PING_MISSED, E.ERROR_RF_ERROR: S.ERROR_RF_FAULT,
                   E.RUNNING_SPA_DISCONNECTED: S.IDLE}[event]
            return (nxt, [E.CLIENT_FACADE_TEARDOWN], False)
        return (state, [], False)
    if event == E.RUNNING_PING_RECEIVED:
        if state in ERROR_STATES:
            return (S.IDLE, [], True)
        return (state, [], False)
    if event in (E.CONNECTION_PROTOCOL_RETRY_COUNT_EXCEEDED, E.ERROR_PROTOCOL_RETRY_COUNT_EXCEEDED, E.ERROR_TOO_MANY_RF_ERRORS):
        return (S.ERROR_NEEDS_ATTENTION, [], False)
    return (state, [], False)


def inv_ok(m):
    connected = m._spa_state == S.CONNECTED
    return both(implies(connected, both(m.bracket == 1, m._facade is not None, m._spa is not None)),
                implies(m._facade is not None, m._spa is not None))


@harness(prop="C08", target="geckolib.async_spa_manager:GeckoAsyncSpaMan._handle_event")
async def every_event_in_every_state_follows_the_table(configured: bool):
    """ground enumeration: 36 events x 10 states x {facade, no facade} x {spa, no spa}; `configured` = identifier/name known"""
    n_checked = 0
    for state in ALL_STATES:
        for with_facade in (False, True):
            for with_spa in (False, True):
                for event in list(E):
                    if not isinstance(event.value, int):
                        continue
                    m = make_man(state, with_facade, with_spa, configured, True)
                    if not inv_ok(m):
                        continue
                    if event in SPA_EVENTS and not with_spa:
                        continue                  # raised by the spa object only
                    if event == E.RUNNING_SPA_WATER_CARE_ERROR and not with_facade:
                        continue                  # raised by a steady-state consumer of a connected spa
                    if event in (E.CONNECTION_STARTED, E.CONNECTION_GOT_CHANNEL, E.RUNNING_SPA_PACK_REFRESHED) and not configured:
                        continue                  # the manager's own sensors / button need the identifier (unique id)
                    if event == E.CONNECTION_FINISHED and state == S.CONNECTED:
                        continue                  # a connect phase starts with no facade (asserted by async_connect_to_spa)
                    if event in (E.CLIENT_FACADE_IS_READY, E.CLIENT_FACADE_TEARDOWN, E.CLIENT_HAS_STATUS_SENSOR,
                                 E.CLIENT_HAS_RECONNECT_BUTTON, E.CLIENT_HAS_PING_SENSOR):
                        continue                  # client notifications are outputs, never inputs
                    (want_state, nested, reset) = lifecycle(state, event, with_facade)
                    kwargs = {"facade": m._facade} if event == E.CONNECTION_FINISHED else {}
                    await m._handle_event(event, **kwargs)
                    n_checked = n_checked + 1
                    ensures("state-follows-the-table", m._spa_state is want_state)
                    got = [d for d in m.deliveries if d not in (event, E.CLIENT_HAS_STATUS_SENSOR, E.RUNNING_SPA_DISCONNECTED)]
                    ensures("client-notifications-follow-the-table", got == nested)
                    ensures("event-itself-delivered-exactly-once", len([d for d in m.deliveries if d is event]) == 1)
                    if reset:
                        ensures("recovery-resets-to-idle-with-nothing-left",
                                both(m._facade is None, m._spa is None, m._spa_descriptors is None))
                    else:
                        ensures("facade-reference-unchanged", (m._facade is not None) == with_facade)
                    ensures("invariant-preserved", inv_ok(m))
                    if configured:
                        ensures("status-sensor-exists-and-mirrors-state",
                                both(m._status_sensor is not None, m._status_sensor.state == S.to_string(m._spa_state)))
    ensures("enumeration-is-not-empty", n_checked > 300)
    cover("reached-end", True)


@harness(prop="C08", target="geckolib.async_spa_manager:GeckoAsyncSpaMan.async_reset")
async def reset_always_lands_in_idle_with_nothing_left(configured: bool):
    for state in ALL_STATES:
        for with_facade in (False, True):
            for with_spa in (False, True):
                m = make_man(state, with_facade, with_spa, configured, True)
                if not inv_ok(m):
                    continue
                f = m._facade
                s = m._spa
                await m.async_reset()
                ensures("reset-lands-in-idle", m._spa_state is S.IDLE)
                ensures("no-facade-spa-or-descriptors-left", both(m._facade is None, m._spa is None, m._spa_descriptors is None))
                if f is not None:
                    ensures("facade-disconnected-once", f.disconnected == 1)
                if s is not None:
                    ensures("spa-disconnected-once", s.disconnected == 1)
                ensures("bracket-closed", m.bracket == 0)
    cover("reached-end", True)


# ------------------------------------------------------------- phases are always closed
class Phase:
    fail = False
    ready = False
    interfere = 0      # what another task of the connection raises while the client handles CONNECTION_SPA_COMPLETE


@summary("geckolib.async_locator:GeckoAsyncLocator.discover", name="discover_may_raise", note="stand-in: returns or raises")
async def discover_may_raise(self):
    self._spas = []
    if Phase.fail:
        raise RuntimeError("network down")


@summary("geckolib.async_spa:GeckoAsyncSpa.connect", name="connect_may_raise_or_complete",
         note="stand-in: raises, gives up, or reports CONNECTION_SPA_COMPLETE like the real handshake")
async def connect_may_raise_or_complete(self):
    if Phase.fail:
        raise RuntimeError("socket error")
    if Phase.ready:
        self._is_connected = True                       # the real handshake sets this just before reporting completion
        await self._event_handler(E.CONNECTION_SPA_COMPLETE)
        # the client's handler for that event may suspend; the RF-error and refresh tasks of this spa are
        # already running and may report in the meantime
        if Phase.interfere == 1:
            await self._event_handler(E.ERROR_TOO_MANY_RF_ERRORS)
        if Phase.interfere == 2:
            await self._event_handler(E.ERROR_PROTOCOL_RETRY_COUNT_EXCEEDED)


@summary("geckolib.automation.async_facade:GeckoAsyncFacade.__init__", name="facade_ctor", note="stand-in constructor (C11 proves the real one)")
def facade_ctor(self, spa, taskman, **kwargs):
    self._spa = spa


class Descr:
    name = "spa"
    identifier = b"SPA1"
    destination = ("10.0.0.9", 10022)


@harness(prop="C08", target="geckolib.async_spa_manager:GeckoAsyncSpaMan.async_locate_spas",
         uses=["discover_may_raise", "connect_may_raise_or_complete", "facade_ctor"])
async def started_phases_are_always_finished(fail: bool, ready: bool, connect_phase: bool, interfere: int):
    requires(both(0 <= interfere, interfere <= 2))
    Phase.interfere = concrete_cases(interfere, 0, 2)
    Phase.fail = fail
    Phase.ready = ready
    m = make_man(S.LOCATED_SPAS if connect_phase else S.IDLE, False, False, True, False)
    raised = False
    try:
        if connect_phase:
            await m.async_connect_to_spa(Descr())
        else:
            await m.async_locate_spas()
    except RuntimeError:
        raised = True
    ensures("exception-propagates-iff-the-phase-failed", raised == fail)
    started = E.CONNECTION_STARTED if connect_phase else E.LOCATING_STARTED
    finished = E.CONNECTION_FINISHED if connect_phase else E.LOCATING_FINISHED
    ensures("phase-started-once", len([d for d in m.deliveries if d is started]) == 1)
    ensures("phase-finished-once-even-when-it-raises", len([d for d in m.deliveries if d is finished]) == 1)
    ensures("finished-comes-after-started", m.deliveries.index(started) < m.deliveries.index(finished))
    if connect_phase:
        if ready and not fail and Phase.interfere != 0:
            ensures("error-raised-during-completion-is-not-overridden",
                    both(m._spa_state is S.ERROR_NEEDS_ATTENTION, m._facade is None, m.bracket == 0))
        elif ready and not fail:
            ensures("connected-with-facade-and-ready-announced",
                    both(m._spa_state is S.CONNECTED, m._facade is not None, m.bracket == 1))
        else:
            ensures("not-connected-without-a-completed-handshake", both(m._spa_state is not S.CONNECTED, m._facade is None, m.bracket == 0))
    else:
        ensures("located-state", m._spa_state is S.LOCATED_SPAS)
    cover("failing-connect", both(connect_phase, fail))


# the automatic recovery reset runs on a task of the connection it tears down (shared with C10)
from contracts import c10_leaks
harness(prop="C08", target="geckolib.async_spa_manager:GeckoAsyncSpaMan.async_reset",
        name="recovery_reset_lands_in_idle_despite_self_cancellation")(c10_leaks.recovery_reset_survives_its_own_cancellation)


# ------------------------------------------------------------ the event / state vocabularies the table is written in
@harness(prop="C08", target="geckolib.spa_events:GeckoSpaEvent", name="every_event_and_state_name_is_its_own_member")
def every_event_and_state_name_is_its_own_member():
    """two names with the same value would silently be ONE event for the pre-processing switch (and for this table): every name
    the statement's table uses denotes a member of its own"""
    names = [n for n in dir(E) if n.isupper()]
    ensures("no-two-event-names-share-a-member", len(names) == len(list(E)))
    for i in range(len(names)):
        for j in range(i + 1, len(names)):
            ensures("event-names-are-distinct-members:" + names[i], getattr(E, names[i]) is not getattr(E, names[j]))
    snames = ["IDLE", "LOCATING_SPAS", "LOCATED_SPAS", "CONNECTING", "SPA_READY", "CONNECTED", "ERROR_SPA_NOT_FOUND", "ERROR_NEEDS_ATTENTION",
              "ERROR_PING_MISSED", "ERROR_RF_FAULT"]
    for i in range(len(snames)):
        for j in range(i + 1, len(snames)):
            ensures("state-names-are-distinct-members:" + snames[i], getattr(S, snames[i]) is not getattr(S, snames[j]))
    ensures("the-ten-states-of-the-table-are-all-there-are", len(list(S)) == len(snames))
    texts = [S.to_string(getattr(S, n)) for n in snames]
    for i in range(len(snames)):
        ensures("every-state-has-a-status-text:" + snames[i], isinstance(texts[i], str) and len(texts[i]) > 0)
        for j in range(i + 1, len(snames)):
            ensures("status-texts-tell-the-states-apart:" + snames[i], texts[i] != texts[j])
