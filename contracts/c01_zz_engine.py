"""C01 -- what the transfer contracts rely on from the engine (kept in its own sidecar: c20_threaded and c06_engine themselves
build on c01_transfer): the threaded reassembly needs finished handlers to be cleaned up between two datagrams (one datagram
per engine pass), the async transfer needs a freshly built request per attempt."""
from verif_api import *
from contracts import c20_threaded, c06_engine

harness(prop="C01", target="geckolib.driver.udp_socket:GeckoUdpSocket._process_received_data",
        name="engine_hands_over_one_datagram_per_pass")(c20_threaded.receive_step_contains_every_failure)
harness(prop="C01", target="geckolib.async_spa:GeckoAsyncSpa._get_status_block_handler_func",
        name="block_request_is_built_afresh_for_every_attempt")(c06_engine.every_attempt_gets_a_fresh_request_with_the_configured_budget)

# a segment is taken by the transfer that asked for it, whatever bytes the spa's block holds (a payload spelling another verb
# must not make another consumer swallow it); shared with C04
from contracts import c04_wire
harness(prop="C01", target="geckolib.driver.protocol.watercare:GeckoWatercareErrorHandler.can_handle",
        name="block_contents_never_redirect_a_segment")(c04_wire.a_datagram_belongs_to_the_handler_of_its_leading_verb_only)
