"""C04 -- a reply built from a received packet goes back to ITS sender, also on a long-lived handler that has answered somebody
else before (contract shared with C05; own sidecar because c05_partial builds on c04_wire)."""
from verif_api import *
from contracts import c05_partial

harness(prop="C04", target="geckolib.driver.protocol.statusblock:GeckoAsyncPartialStatusBlockProtocolHandler.async_handle",
        loops=["async_decode_loop"], name="acknowledgement_is_addressed_to_the_sender_of_its_message")(
    c05_partial.each_acknowledgement_goes_back_to_the_sender_of_its_message)
