"""C11 -- every shipped pack table yields a facade whose read-only API is total.
   C12 -- device inventory equals the spa's output wiring, with unique keys (shared machinery).

One proof per class of (platform, config version, log version) combinations with identical
facade-relevant tables (keys, shapes and positions of every item the facade reads): the real
table modules are loaded, the 1024-byte block is symbolic, the REAL GeckoAsyncFacade
constructor runs, then every read-only member is evaluated.  Exception-freedom is the
default postcondition of the harness.  Symbolic comprehension filters are merged into
guarded lists (no 2^outputs fork); decoded enum values are merged choices
(callee contract `get_value_contract`, proved against the real body per shape).
"""
import importlib

from verif_api import *
from geckolib.const import GeckoConstants
from geckolib.async_spa import GeckoAsyncSpa
from geckolib.driver.async_spastruct import GeckoAsyncStructure
from geckolib.driver.accessor import GeckoStructAccessor, GeckoTempStructAccessor
from geckolib.automation.async_facade import GeckoAsyncFacade
from geckolib.automation.pump import GeckoPump
from geckolib.automation.blower import GeckoBlower
from geckolib.automation.light import GeckoLight
from geckolib.automation.watercare import GeckoWaterCare
from geckolib.automation.reminders import GeckoReminders
from geckolib.driver.protocol.reminders import GeckoReminderType
from contracts.c02_accessor import build


# ---------------------------------------------------------------- callee contracts
@summary("geckolib.driver.accessor:GeckoStructAccessor._get_value", name="get_value_contract",
         note="merged decode: an enum reads items[raw] or 'Unknown' as ONE symbolic choice; proved equal to the real body per shape")
def get_value_contract(self, status_block=None):
    raw = self._get_raw_value(status_block)
    if self.type == "Bool":
        return raw == 1
    if self.type == "Enum":
        n = len(self.items)
        return pick(self.items + ["Unknown"], min(raw, n))
    if self.type == "Time":
        return f"{int(raw / 256):02}:{raw % 256:02}"
    return raw


@harness(prop="C11", cases="c02_all_nontemp_shapes", target="geckolib.driver.accessor:GeckoStructAccessor._get_value",
         proves="get_value_contract", name="decode_contract_matches_the_code")
def decode_contract_matches_the_code(shape, pos: int, block: bytes):
    from contracts.c02_accessor import spec_length, RecStruct
    requires(len(block) == 1024)
    requires(both(0 <= pos, pos + spec_length(shape) <= 1024))
    a = build(shape, RecStruct(block), pos)
    real = a._get_value(block)
    ensures("contract-equals-real-decode", get_value_contract(a, block) == real)
    ensures("out-of-range-enum-reads-Unknown-and-never-raises", True)


@summary("geckolib.driver.accessor:GeckoTempStructAccessor._get_value", name="temperature_is_some_finite_number", assumed=True,
         note="a temperature reads as a finite non-negative float (its exact value is C14); needs the TempUnits item like the real code")
def temperature_is_some_finite_number(self, status_block=None):
    units = self.struct.accessors[GeckoConstants.KEY_TEMP_UNITS].value
    if status_block is None and getattr(self, "_ghost_reading", None) is not None:
        return self._ghost_reading            # the block does not change while members are read
    t = fresh_float("temperature")
    ensures("finite", both(t >= 0.0, t <= 7000.0))
    if status_block is None:
        self._ghost_reading = t
    return t


@harness(prop="C11", target="geckolib.driver.accessor:GeckoTempStructAccessor._get_value", proves="temperature_is_some_finite_number",
         name="temperature_reads_for_any_block_and_unit_byte")
def temperature_reads_for_any_block_and_unit_byte(upos: int, tpos: int, block: bytes, bitfield: bool):
    """the assumed temperature summary against the real body: no exception and a finite reading for EVERY block,
    including a unit byte outside the two-entry table (the enum then reads 'Unknown').  Exact-rational floats:
    only totality and the range are claimed here, the exact value is C14."""
    from contracts.c02_accessor import RecStruct
    from geckolib.driver.accessor import GeckoEnumStructAccessor
    exact_rational_floats(True)
    requires(len(block) == 1024)
    requires(both(0 <= upos, upos <= 1023, 0 <= tpos, tpos + 2 <= 1024))
    s = RecStruct(block)
    if bitfield:
        units = GeckoEnumStructAccessor(s, "TempUnits", upos, 2, ["C", "F"], None, 2, "ALL")
    else:
        units = GeckoEnumStructAccessor(s, "TempUnits", upos, None, ["F", "C"], None, None, "ALL")
    t = GeckoTempStructAccessor(s, "SetpointG", tpos, "ALL")
    s.accessors = {"TempUnits": units, "SetpointG": t}
    v = t.value
    ensures("finite-non-negative-whatever-the-unit-byte", both(v >= 0, v <= 7000))
    w = t._get_value(block)
    ensures("same-reading-from-an-explicit-block", w == v)
    cover("unit-byte-outside-the-table", both(not bitfield, byte_at(block, upos) >= 2))


# ----------------------------------------------------------------------------- set-up
class TaskMan:
    unique_id = "SPA010203040506"
    spa_name = "My Spa"

    def __init__(self):
        self.tasks = []

    def add_task(self, coro, name, key):
        self.tasks.append((coro, name, key))

    def cancel_key_tasks(self, key):
        pass


class Tables:
    cache = {}


def connected_spa(combo, block):
    """the real table modules on a fresh symbolic block.  The accessor objects are built once per process (their
    only mutable state, the observer lists, is reset) -- paths re-execute the harness from scratch."""
    key = combo["id"]
    if key not in Tables.cache:
        st = GeckoAsyncStructure(None, None)
        cfg = importlib.import_module("geckolib.driver.packs.%s-cfg-%d" % (combo["platform"], combo["cfg"])).GeckoConfigStruct(st)
        log = importlib.import_module("geckolib.driver.packs.%s-log-%d" % (combo["platform"], combo["log"])).GeckoLogStruct(st)
        st.build_accessors(cfg, log)
        Tables.cache[key] = st
    st = Tables.cache[key]
    st.set_status_block(block)
    for a in st.accessors.values():
        a._observers.clear()
        a._ghost_reading = None
    spa = new(GeckoAsyncSpa)
    spa._observers = []
    spa.struct = st
    spa._last_ping = None
    return spa


def touch(x):
    """evaluate and discard"""
    return x


def read_device(d):
    touch(d.name)
    touch(d.parent_name)
    touch(d.key)
    touch(d.unique_id)
    touch(d.parent_unique_id)
    touch(d.monitor)
    touch(str(d))
    touch(repr(d))
    touch(d.has_observers)


def known_precondition(spa):
    """combinations whose tables lack items the facade needs are recorded findings (keyed by the missing item)"""
    acc = spa.accessors
    if GeckoConstants.KEY_TEMP_UNITS not in acc:
        known_finding("C11:no-TempUnits", True)
    elif not (GeckoConstants.KEY_SETPOINT_G in acc and GeckoConstants.KEY_DISPLAYED_TEMP_G in acc and GeckoConstants.KEY_REAL_SETPOINT_G in acc):
        known_finding("C11:heater-items-missing", True)
    elif GeckoConstants.KEY_ECON_ACTIVE not in acc:
        known_finding("C11:no-EconActive", True)
    return True


def facade_level_members(f):
    touch(f.unique_id)
    touch(f.name)
    touch(f.spa)
    touch(f.reminders_manager)
    touch(f.water_heater)
    touch(f.water_care)
    touch(f.keypad)
    touch(f.error_sensor)
    touch(f.eco_mode)
    touch(f.all_user_devices)
    touch(f.all_config_change_devices)
    touch(f.devices)
    for (g, d) in members(f.all_automation_devices):
        if not is_symbolic(g):
            ensures("lookup-by-key-returns-that-device", f.get_device(d.key) is d)
    ensures("unknown-key-returns-none", f.get_device("no such key") is None)


@harness(prop="C11", cases="c11_representatives", cases_quick="c11_quick",
         target="geckolib.automation.async_facade:GeckoAsyncFacade.__init__",
         uses=["get_value_contract", "temperature_is_some_finite_number"], timeout=120)
def facade_constructs_for_any_block(combo, block: bytes):
    requires(len(block) == 1024)
    enable_guarded_collections()
    spa = connected_spa(combo, block)
    known_precondition(spa)
    f = GeckoAsyncFacade(spa, TaskMan())
    facade_level_members(f)
    cover("reached-end", True)


class FacadeStub:
    """what a device object needs from its facade"""

    def __init__(self, spa):
        self._spa = spa
        self.spa = spa
        self.unique_id = "SPA010203040506"
        self.name = "My Spa"


def device_candidates(spa):
    """every device object the facade could ever build for this table pair, as (kind, constructor arguments)"""
    out = []
    acc = spa.accessors
    for d in spa.struct.all_devices:
        if d not in GeckoConstants.DEVICES:
            continue
        uds = [ud for ud in spa.struct.user_demands if ("Ud%s" % d).upper() == ud.upper()]
        if not uds:
            continue
        out.append(("user-device", d, uds[0]))
    for s in GeckoConstants.SENSORS:
        if s[1] in acc:
            out.append(("sensor", s[0], s[1]))
    for s in GeckoConstants.BINARY_SENSORS:
        if s[1] in acc:
            out.append(("binary-sensor", s[0], s[1]))
    out.append(("error-sensor", None, None))
    out.append(("heater", None, None))
    if GeckoConstants.KEY_ECON_ACTIVE in acc:
        out.append(("eco", None, None))
    out.append(("keypad", None, None))
    return out


@harness(prop="C11", cases="c11_representatives", cases_quick="c11_quick",
         target="geckolib.automation.pump:GeckoPump.__init__", name="every_device_member_reads_for_any_block",
         uses=["get_value_contract", "temperature_is_some_finite_number"], timeout=120)
def every_device_member_reads_for_any_block(combo, block: bytes):
    """each device object the facade can build (built exactly as _scan_outputs builds it), one per path: every read-only member"""
    from geckolib.automation.sensors import GeckoSensor, GeckoBinarySensor, GeckoErrorSensor
    from geckolib.automation.heater import GeckoWaterHeater
    from geckolib.automation.switch import GeckoSwitch
    from geckolib.automation.keypad import GeckoKeypad
    requires(len(block) == 1024)
    enable_guarded_collections()
    spa = connected_spa(combo, block)
    fac = FacadeStub(spa)
    cands = device_candidates(spa)
    k = fresh_int("device", 0, len(cands) - 1)
    k = concrete_cases(k, 0, len(cands) - 1)
    (kind, a, b) = cands[k]
    if kind == "user-device":
        props = GeckoConstants.DEVICES[a]
        if props[3] == GeckoConstants.DEVICE_CLASS_PUMP:
            d = GeckoPump(fac, a, props, {"demand": spa.accessors[b].tag, "options": spa.accessors[b].items})
            touch(d.modes)
            touch(d.mode)
        elif props[3] == GeckoConstants.DEVICE_CLASS_BLOWER:
            d = GeckoBlower(fac, a, props)
            touch(d.state_sensor())
        else:
            d = GeckoLight(fac, a, props)
            touch(d.state_sensor())
        read_device(d)
        touch(d.is_on)
        touch(d.device_class)
    elif kind == "sensor" or kind == "binary-sensor":
        d = GeckoSensor(fac, a, spa.accessors[b]) if kind == "sensor" else GeckoBinarySensor(fac, a, spa.accessors[b])
        read_device(d)
        touch(d.state)
        touch(d.unit_of_measurement)
        touch(d.device_class)
        touch(d.accessor)
        if kind == "binary-sensor":
            touch(d.is_on)
    elif kind == "error-sensor":
        d = GeckoErrorSensor(fac)
        read_device(d)
        touch(d.state)
    elif kind == "heater":
        acc = spa.accessors
        if GeckoConstants.KEY_TEMP_UNITS not in acc:
            known_finding("C11:no-TempUnits", True)
        elif not (GeckoConstants.KEY_SETPOINT_G in acc and GeckoConstants.KEY_DISPLAYED_TEMP_G in acc and GeckoConstants.KEY_REAL_SETPOINT_G in acc):
            known_finding("C11:heater-items-missing", True)
        h = GeckoWaterHeater(fac)
        read_device(h)
        touch(h.is_present)
        touch(h.target_temperature)
        touch(h.real_target_temperature)
        touch(h.current_temperature)
        touch(h.min_temp)
        touch(h.max_temp)
        touch(h.temperature_unit)
        touch(h.current_operation)
        touch(h.format_temperature(h.current_temperature))
    elif kind == "eco":
        d = GeckoSwitch(fac, GeckoConstants.KEY_ECON_ACTIVE,
                        (GeckoConstants.ECON_ACTIVE_DESCRIPTION, GeckoConstants.KEYPAD_ECOMODE, GeckoConstants.KEY_ECON_ACTIVE,
                         GeckoConstants.DEVICE_CLASS_SWITCH))
        read_device(d)
        touch(d.is_on)
    else:
        read_device(GeckoKeypad(fac))
    cover("reached-end", True)


# ---------------------------------------------------------------- watercare / reminders
class OwnerStub:
    """what the automation objects take from the facade that owns them"""
    unique_id = "id"
    name = "spa"
    _spa = None


@harness(prop="C11", target="geckolib.automation.watercare:GeckoWaterCare.__str__")
def any_watercare_mode_byte_renders(mode: int, unset: bool):
    requires(both(0 <= mode, mode <= 255))
    wc = GeckoWaterCare(OwnerStub())                    # the real constructor: members are read before any update too
    if not unset:
        wc.change_watercare_mode(mode)
    touch(wc.mode)
    touch(wc.modes)
    touch(wc.monitor)
    touch(str(wc))
    cover("mode-just-past-the-table", mode == 5)


@harness(prop="C11", target="geckolib.automation.reminders:GeckoReminders.change_reminders")
def any_reminder_list_renders(t1: int, d1: int, t2: int, d2: int, n: int):
    requires(both(0 <= t1, t1 <= 6, 0 <= t2, t2 <= 6, -32768 <= d1, d1 <= 32767, -32768 <= d2, d2 <= 32767, 0 <= n, n <= 2))
    t1 = concrete_cases(t1, 0, 6)
    t2 = concrete_cases(t2, 0, 6)
    n = concrete_cases(n, 0, 2)
    rm = GeckoReminders(OwnerStub())                    # the real constructor
    # every member is readable before the first update has arrived ...
    touch(rm.last_update)
    touch(str(rm))
    touch(rm.monitor)
    ensures("nothing-listed-before-the-first-update", len(rm.reminders) == 0)
    for t in list(GeckoReminderType):
        ensures("no-reminder-found-before-the-first-update", rm.get_reminder(t) is None)
    # ... and after it
    recs = [(GeckoReminderType(t1), d1), (GeckoReminderType(t2), d2)][0:n]
    rm.change_reminders(recs)
    touch(rm.last_update)
    touch(str(rm))
    touch(rm.monitor)
    for r in rm.reminders:
        touch(r.type)
        touch(r.description)
        touch(r.days)
        touch(r.monitor)
        touch(str(r))
    for t in list(GeckoReminderType):
        touch(rm.get_reminder(t))
    ensures("invalid-records-are-not-listed", len(rm.reminders) == len([r for r in recs if r[0] != GeckoReminderType.INVALID]))

