"""C13 -- facade commands emit exactly the intended device write and are idempotent.

Contracts along the command chain; each link's postcondition is the next link's precondition:
  device command (switch / pump / heater / watercare)  ->  one key press or one accessor write
  accessor write (C02)  ->  GeckoAsyncSpa._on_async_set_value  ->  SPACK set-value bytes
  key press             ->  GeckoAsyncSpa.async_press          ->  SPACK key-press bytes
with the connected pack's type and config/log versions and a command-range sequence number
(the REAL counter body is inlined, for every counter state satisfying its invariant).
Read-back: the echo of the write applied to the client's block (C05 step) makes the item
read the requested value (C02 postcondition through the real replace_status_block_segment).
What the physical spa does with a key press (toggle the device) is an ASSUMED spa model.
"""
from verif_api import *
from geckolib.const import GeckoConstants
from geckolib.automation.switch import GeckoSwitch
from geckolib.automation.pump import GeckoPump
from geckolib.automation.heater import GeckoWaterHeater
from geckolib.automation.watercare import GeckoWaterCare
from geckolib.async_spa import GeckoAsyncSpa
from geckolib.driver.async_udp_protocol import GeckoAsyncUdpProtocol
from geckolib.driver.async_spastruct import GeckoAsyncStructure
from contracts.c02_accessor import build, spec_length, RecStruct, pack_word, spec_mask, word_at
from contracts.c16_seq import seq_inv

SENDPARMS = ("10.0.0.9", 10022, b"SPAid", b"IOSclient")


# ---------------------------------------------------------------------- device -> spa
class SpaRec:
    def __init__(self):
        self.presses = []
        self.watercare = []

    async def async_press(self, keypad):
        self.presses.append(keypad)

    def press(self, keypad):
        self.presses.append(keypad)

    async def async_set_watercare(self, mode):
        self.watercare.append(mode)


class AccRec:
    def __init__(self, type_):
        self.type = type_
        self.writes = []
        self.tag = "item"

    async def async_set_value(self, v):
        self.writes.append(v)

    @property
    def value(self):
        return None

    @value.setter
    def value(self, v):
        self.writes.append(v)


class StateSensor:
    def __init__(self, state):
        self.state = state


def make_switch(keypad, is_bool, state):
    sw = new(GeckoSwitch)
    sw._observers = []
    sw._name = "device"
    sw._spa = SpaRec()
    sw._accessor = AccRec("Bool" if is_bool else "Enum")
    sw._state_sensor = StateSensor(state)
    sw._keypad_button = keypad
    return sw


@harness(prop="C13", target="geckolib.automation.switch:GeckoSwitch.async_turn_on")
async def switch_commands_are_exact_and_idempotent(dev: int, on_cmd: bool, use_async: bool, is_bool: bool, bstate: bool, lbl: int):
    """every entry of the device table (and the eco switch, keypad 0), every current state, on and off, both facades"""
    names = list(GeckoConstants.DEVICES)
    requires(both(0 <= dev, dev <= len(names)))
    dev = concrete_cases(dev, 0, len(names))
    keypad = GeckoConstants.KEYPAD_ECOMODE if dev == len(names) else GeckoConstants.DEVICES[names[dev]][1]
    labels = ["OFF", "ON", "HI", "LO", ""]
    requires(both(0 <= lbl, lbl < len(labels)))
    state = bstate if is_bool else labels[concrete_cases(lbl, 0, len(labels) - 1)]
    sw = make_switch(keypad, is_bool, state)
    currently_on = state if is_bool else (state != "OFF")
    ensures("is-on-mirrors-the-state", sw.is_on == currently_on)
    if on_cmd:
        if use_async:
            await sw.async_turn_on()
        else:
            sw.turn_on()
    else:
        if use_async:
            await sw.async_turn_off()
        else:
            sw.turn_off()
    n_press = len(sw._spa.presses)
    n_write = len(sw._accessor.writes)
    if currently_on == on_cmd:
        ensures("already-in-requested-state-sends-nothing", both(n_press == 0, n_write == 0))
    elif keypad != 0:
        ensures("exactly-one-key-press-of-the-device-button", both(n_press == 1, n_write == 0, sw._spa.presses[0] == keypad))
    else:
        ensures("exactly-one-write-of-the-requested-state", both(n_press == 0, n_write == 1, sw._accessor.writes[0] == on_cmd))
    cover("eco-switch-write", both(dev == len(names), currently_on != on_cmd))
    cover("pump-key-press", both(dev == 0, currently_on != on_cmd))


class FacadeStub:
    def __init__(self, spa):
        self.spa = spa


class StateStub:
    def __init__(self, state):
        self.state = state


class SpaAcc:
    def __init__(self, accessors):
        self.accessors = accessors


@harness(prop="C13", target="geckolib.automation.pump:GeckoPump.async_set_mode")
async def pump_mode_is_one_write_of_the_demand(k: int, use_async: bool, cur: int):
    """whatever state the pump currently reports (the reported state lags the demand and may be stale)"""
    modes = ["OFF", "LO", "HI"]
    states = ["OFF", "LO", "HI", "LOW", "HIGH"]
    requires(both(0 <= k, k < 3, 0 <= cur, cur < 5))
    mode = modes[concrete_cases(k, 0, 2)]
    acc = AccRec("Enum")
    other = AccRec("Enum")
    p = new(GeckoPump)
    p._observers = []
    p._name = "Pump 1"
    p._facade = FacadeStub(SpaAcc({"UdP1": acc, "UdP2": other}))
    p._user_demand = {"demand": "UdP1", "options": modes}
    p._state_sensor = StateStub(states[concrete_cases(cur, 0, 4)])
    if use_async:
        await p.async_set_mode(mode)
    else:
        p.set_mode(mode)
    ensures("exactly-one-write-to-its-own-demand", both(acc.writes == [mode], other.writes == []))
    ensures("modes-are-the-demand-options", p.modes == modes)


class Sens:
    def __init__(self, accessor):
        self.accessor = accessor


@harness(prop="C13", target="geckolib.automation.heater:GeckoWaterHeater.async_set_target_temperature")
async def heater_commands(t: float, u: int, use_async: bool):
    units = ["°F", "f", "F", "°C", "c", "C", "K"]
    requires(both(0 <= u, u < len(units)))
    unit = units[concrete_cases(u, 0, len(units) - 1)]
    tacc = AccRec("Word")
    uacc = AccRec("Enum")
    h = new(GeckoWaterHeater)
    h._target_temperature_sensor = Sens(tacc)
    h._temperature_unit_accessor = uacc
    if use_async:
        await h.async_set_target_temperature(t)
        await h.async_set_temperature_unit(unit)
    else:
        h.set_target_temperature(t)
        h.set_temperature_unit(unit)
    ensures("target-temperature-is-one-write-of-the-value", both(len(tacc.writes) == 1, tacc.writes[0] is t))
    want = "F" if unit in ("°F", "f", "F") else "C"
    ensures("unit-is-one-write-of-F-or-C", uacc.writes == [want])


@harness(prop="C13", target="geckolib.automation.watercare:GeckoWaterCare.async_set_mode")
async def watercare_mode_command(k: int, by_name: bool, cached: int):
    """whatever mode the client last heard of (None, the same, another): the cache may be stale -- the mode can be changed
    at the spa's own keypad -- so a watercare command always sends exactly one command"""
    requires(both(0 <= k, k < 5, -1 <= cached, cached < 5))
    k = concrete_cases(k, 0, 4)
    cached = concrete_cases(cached, -1, 4)
    wc = new(GeckoWaterCare)
    wc._observers = []
    wc._name = "WaterCare"
    wc._spa = SpaRec()
    wc.active_mode = None if cached < 0 else cached
    arg = GeckoConstants.WATERCARE_MODE_STRING[k] if by_name else k
    await wc.async_set_mode(arg)
    ensures("exactly-one-set-watercare-with-the-mode-index", wc._spa.watercare == [k])
    ensures("reports-the-new-mode", wc.mode == k)


# ----------------------------------------------------------------------- spa -> bytes
class Cap:
    requests = []


@summary("geckolib.driver.async_udp_protocol:GeckoAsyncUdpProtocol.get", name="engine_capture",
         note="engine stand-in (the engine is proved in C06): builds the request once and records it")
async def engine_capture(self, create_func, destination=None, retry_count=10):
    req = create_func()
    Cap.requests.append(req)
    if fresh_bool("engine_reply"):
        return req
    return None


class Desc:
    destination = ("10.0.0.9", 10022)
    identifier = b"SPAid"


async def no_event(event, **kwargs):
    return None


def connected_spa(pack_type, cfg, log, p, c):
    spa = new(GeckoAsyncSpa)
    spa._observers = []
    spa.descriptor = Desc()
    spa.client_id = b"IOSclient"
    spa._is_connected = True
    spa._last_ping = clock_now()
    spa._event_handler = no_event
    spa.pack_type = pack_type
    spa.config_version = cfg
    spa.log_version = log
    proto = new(GeckoAsyncUdpProtocol)
    proto._sequence_counter_protocol = p
    proto._sequence_counter_command = c
    spa._protocol = proto
    return spa


def frame(content):
    return b"<PACKT><SRCCN>IOSclient</SRCCN><DESCN>SPAid</DESCN><DATAS>" + content + b"</DATAS></PACKT>"


@harness(prop="C13", target="geckolib.async_spa:GeckoAsyncSpa._on_async_set_value", uses=["engine_capture"])
async def set_value_command_bytes(pack_type: int, cfg: int, log: int, p: int, c: int, pos: int, length: int, w: int):
    requires(both(0 <= pack_type, pack_type <= 255, 0 <= cfg, cfg <= 255, 0 <= log, log <= 255, seq_inv(p, c)))
    requires(both(1 <= length, length <= 2))
    length = concrete_cases(length, 1, 2)
    requires(both(0 <= pos, pos <= 1023, 0 <= w, w < 256 ** length))
    spa = connected_spa(pack_type, cfg, log, p, c)
    Cap.requests = []
    await spa._on_async_set_value(pos, length, w)
    ensures("exactly-one-command", len(Cap.requests) == 1)
    req = Cap.requests[0]
    seq = spa._protocol._sequence_counter_command
    ensures("command-range-sequence-number", both(192 <= seq, seq <= 255))
    want = b"SPACK" + bytes([seq, pack_type, 5 + length, 70, cfg, log, pos // 256, pos % 256]) + pack_word(length, w)
    ensures("well-formed-set-value-with-pack-type-and-versions", req._content == want)
    ensures("addressed-to-the-connected-spa", req.send_bytes == frame(want))


@harness(prop="C13", target="geckolib.async_spa:GeckoAsyncSpa.async_press", uses=["engine_capture"])
async def key_press_command_bytes(pack_type: int, p: int, c: int, key: int):
    requires(both(0 <= pack_type, pack_type <= 255, seq_inv(p, c), 0 <= key, key <= 255))
    spa = connected_spa(pack_type, 1, 1, p, c)
    Cap.requests = []
    await spa.async_press(key)
    ensures("exactly-one-command", len(Cap.requests) == 1)
    req = Cap.requests[0]
    seq = spa._protocol._sequence_counter_command
    ensures("command-range-sequence-number", both(192 <= seq, seq <= 255))
    want = b"SPACK" + bytes([seq, pack_type, 2, 57, key])
    ensures("well-formed-key-press-with-pack-type", req._content == want)
    ensures("addressed-to-the-connected-spa", req.send_bytes == frame(want))


@harness(prop="C13", target="geckolib.async_spa:GeckoAsyncSpa.async_set_watercare", uses=["engine_capture"])
async def watercare_command_bytes(p: int, c: int, mode: int):
    requires(both(seq_inv(p, c), 0 <= mode, mode <= 255))
    spa = connected_spa(6, 1, 1, p, c)
    Cap.requests = []
    await spa.async_set_watercare(mode)
    ensures("exactly-one-command", len(Cap.requests) == 1)
    seq = spa._protocol._sequence_counter_protocol
    ensures("protocol-range-sequence-number", both(1 <= seq, seq <= 191))
    ensures("well-formed-set-watercare", Cap.requests[0]._content == b"SETWC" + bytes([seq, mode]))


# -------------------------------------------------- accessor write -> spa -> echo -> read
class SpaLink:
    """structure whose async write path is the real GeckoAsyncSpa._on_async_set_value"""
    pass


@harness(prop="C13", cases="c13_command_shapes", target="geckolib.driver.accessor:GeckoStructAccessor.async_set_value",
         uses=["engine_capture"])
async def command_write_reads_back_after_echo(shape, pos: int, block: bytes, flag: bool, pack_type: int, p: int, c: int):
    """device write through the real chain accessor -> structure -> spa -> SPACK; the spa applies the word and
    echoes it; the client applies the echo (C05 step) and reads the requested value back"""
    length = spec_length(shape)
    requires(len(block) == 1024)
    requires(both(0 <= pos, pos + length <= 1024, 0 <= pack_type, pack_type <= 255, seq_inv(p, c)))
    spa = connected_spa(pack_type, 3, 4, p, c)
    spa.struct = GeckoAsyncStructure(spa._on_set_value, spa._on_async_set_value)
    spa.struct.set_status_block(block)
    a = build(shape, spa.struct, pos)
    spa.struct.accessors = {"item": a}
    if shape["cls"] == "GeckoBoolStructAccessor":
        v = flag
    else:
        k = fresh_int("label_case", 0, len(shape["items"]) - 1)
        k = concrete_cases(k, 0, len(shape["items"]) - 1)
        v = shape["items"][k]
        first = shape["items"].index(v)
        requires(first <= ((shape_mask(shape)) if shape["bitpos"] is not None else 255))
    Cap.requests = []
    await a.async_set_value(v)
    ensures("exactly-one-command", len(Cap.requests) == 1)
    content = Cap.requests[0]._content
    ensures("set-value-command-for-this-item",
            both(content[0:5] == b"SPACK", byte_at(content, 8) == 70, byte_at(content, 11) * 256 + byte_at(content, 12) == pos,
                 len(content) == 13 + length))
    # assumed spa model: applies the word at the position and echoes it as a partial update
    word = content[13:13 + length]
    spa.struct.replace_status_block_segment(pos, word)
    ensures("requested-value-reads-back-after-the-echo", a.value == v)
    ensures("only-the-item-bytes-changed", spa.struct.status_block == block[0:pos] + word + block[pos + length:])
    m = spec_mask(shape)
    ensures("no-other-demand-in-the-same-bytes-changes",
            (word_at(spa.struct.status_block, pos, length) & ~m) == (word_at(block, pos, length) & ~m))


def shape_mask(shape):
    n = 1
    mi = shape["maxitems"]
    if mi is not None:
        if mi > 8:
            n = 15
        elif mi > 4:
            n = 7
        elif mi > 2:
            n = 3
    return n


# "commands carry a command-range sequence number": the counters both clients draw it from (contracts shared with C16)
from contracts import c16_seq
harness(prop="C13", target="geckolib.driver.udp_socket:GeckoUdpSocket.get_and_increment_sequence_counter",
        name="blocking_command_counter_stays_in_the_command_range")(c16_seq.sync_counter_step)
harness(prop="C13", target="geckolib.driver.async_udp_protocol:GeckoAsyncUdpProtocol.get_and_increment_sequence_counter",
        name="async_command_counter_stays_in_the_command_range")(c16_seq.async_counter_step)
