"""C19 -- snapshot capture / replay round trip (PARTIAL, see the level note).

Within reach of contracts on the real functions:
  * GeckoSnapshot._re_data: decode of the shell's hex-list text -- element lemmas for all 256 byte values and
    the separator lemma, enumerated completely through the real function (ground), plus version getters
  * GeckoSimulator.set_snapshot: loads exactly the snapshot's bytes and the config / log tables of the
    snapshot's versions, everything writable
  * GeckoSnapshot._re_data_segment (traffic log): BOUNDED stand-in over all 1- and 2-byte payloads
Outside the verifier, ASSUMED: regular-expression capture semantics (which text reaches the handlers),
logging.Formatter ('%s' of a list / of bytes is str() / repr()), file iteration.  Loadability of the 34
shipped snapshot files is not claimed (it can only be run, not proved, with what is installed).
"""
from verif_api import *
from geckolib.utils.snapshot import GeckoSnapshot
from geckolib.utils.simulator import GeckoSimulator
from geckolib.driver.spastruct import GeckoStructure
from geckolib.driver.protocol.statusblock import GeckoStatusBlockProtocolHandler


def shell_hex_list(block):
    """what `logger.info([hex(b) for b in block])` writes between the brackets ('%s' of a list = str(list))"""
    return str([hex(b) for b in block])[1:-1]


@harness(prop="C19", target="geckolib.utils.snapshot:GeckoSnapshot._re_data")
def hex_list_decodes_every_byte_value():
    """element lemma (all 256 values, alone and after a separator) + separator lemma, through the real decoder"""
    for b in range(256):
        s = GeckoSnapshot()
        s._re_data((shell_hex_list(bytes([b])),))
        ensures("single-byte-list-decodes", s.bytes == bytes([b]))
        ensures("element-text-contains-no-separator", "," not in hex(b) and "]" not in hex(b) and "[" not in hex(b))
        s2 = GeckoSnapshot()
        s2._re_data((shell_hex_list(bytes([255 - b, b, 0, b])),))
        ensures("position-in-the-list-does-not-matter", s2.bytes == bytes([255 - b, b, 0, b]))
    s3 = GeckoSnapshot()
    blk = bytes(range(256)) * 4
    s3._re_data((shell_hex_list(blk),))
    ensures("a-whole-1024-byte-block-decodes", s3.bytes == blk)
    cover("reached-end", True)


@harness(prop="C19", target="geckolib.utils.snapshot:GeckoSnapshot.config_version")
def header_fields_parse_back(a: int, b: int, c: int, cfg: int, log: int):
    """version header handlers + getters (the captured groups are decimal renderings: ASSUMED regex capture)"""
    requires(both(0 <= a, a <= 65535, 0 <= b, b <= 255, 0 <= c, c <= 255, 0 <= cfg, cfg <= 255, 0 <= log, log <= 255))
    s = GeckoSnapshot()
    s._re_intouch_en((str(a), str(b), str(c)))
    s._re_intouch_co((str(c), str(b), str(a)))
    s._re_config_version((str(cfg),))
    s._re_log_version((str(log),))
    s._re_spa_pack(("inYT", str(a), str(b), str(c)))
    ensures("firmware-versions", both(s.intouch_EN == (a, b, c), s.intouch_CO == (c, b, a)))
    ensures("config-and-log-versions", both(s.config_version == cfg, s.log_version == log))
    ensures("pack-type", s.packtype == "inYT")


class Snap:
    def __init__(self, packtype, cfg, log, data):
        self.packtype = packtype
        self.config_version = cfg
        self.log_version = log
        self.bytes = data
        self.intouch_EN = (1, 2, 3)
        self.intouch_CO = (4, 5, 6)


@harness(prop="C19", cases="c19_version_pairs", target="geckolib.utils.simulator:GeckoSimulator.set_snapshot")
def simulator_loads_the_snapshot_tables_and_bytes(pair, data: bytes):
    requires(len(data) == 1024)
    sim = new(GeckoSimulator)
    sim.structure = GeckoStructure(None)
    sim.set_snapshot(Snap(pair["name"], pair["cfg"], pair["log"], data))
    ensures("serves-the-snapshot-bytes-unchanged", sim.structure.status_block == data)
    ensures("config-table-of-the-snapshot-version", sim.config_class.version == pair["cfg"])
    ensures("log-table-of-the-snapshot-version", sim.log_class.version == pair["log"])
    ensures("pack-of-the-snapshot-platform", sim.pack_class.name.lower() == pair["platform"])
    n = 0
    for a in sim.structure.accessors.values():
        n = n + 1
        ensures("every-item-writable-in-the-simulator", a.read_write == "ALL")
    ensures("accessors-built", n > 10)


def traffic_text(payload, idx, nxt):
    """the text the parser's regex hands to _re_data_segment for a logged STATV packet (ASSUMED: '%s' of bytes is
    repr(); the greedy group runs from 'STATV' to the last '</DATAS>')"""
    h = GeckoStatusBlockProtocolHandler.response(idx, nxt, payload, parms=("10.0.0.9", 10022, b"SPAid", b"IOSclient"))
    text = repr(h.send_bytes)
    return text[text.index("STATV"):text.rindex("</DATAS>")]


def segment_round_trips(payload):
    s = GeckoSnapshot()
    s._re_data_segment((traffic_text(payload, 0, 0),))
    return s.bytes == payload


TRICKY = [0x00, 0x0a, 0x0d, 0x20, 0x22, 0x27, 0x5b, 0x5c, 0x5d, 0x2c, 0x30, 0x78, 0x41, 0x7f, 0x80, 0xff, 0x3c, 0x3e, 0x2f]


@harness(prop="C19", target="geckolib.utils.snapshot:GeckoSnapshot._re_data_segment", cases="c19_chunks",
         bounded="all 1-byte and (thorough: all 65536; quick: 19 x 256 tricky-first) 2-byte segment payloads")
def traffic_segment_round_trips_bounded(chunk):
    for a in chunk["first"]:
        if chunk["singles"]:
            ok1 = segment_round_trips(bytes([a]))
            if a in (0x22, 0x27):
                ensures("single-quote-byte", ok1)
            else:
                ensures("single-byte-payload", ok1)
        for b in range(256):
            both_quotes = (a in (0x22, 0x27)) and (b in (0x22, 0x27)) and a != b
            ok = segment_round_trips(bytes([a, b]))
            if both_quotes:
                if not ok:
                    known_finding("C19:segment-with-both-quote-characters", True)
                ensures("payload-with-both-quote-characters", ok)
            else:
                ensures("two-byte-payload", ok)
    cover("reached-end", True)


# the simulator serves any requested range of the loaded block (chain contract shared with C01)
from contracts import c01_transfer
harness(prop="C19", target="geckolib.utils.simulator:GeckoSimulator._on_status_block", loops=["sim_chain_loop"],
        name="simulator_serves_any_range_of_the_block_unchanged")(c01_transfer.simulator_produces_the_chain)


# ------------------------------------------------------------------ writer side (shell)
from geckolib.utils.shell import GeckoShell
import geckolib.utils.shell as shell_module


class SpaFields:
    revision = "19.00"
    intouch_version_en = "70 v14.1"
    intouch_version_co = "69 v11.2"
    pack = "inYJ"
    version = "177 v3.4"
    config_number = 5
    config_version = 62
    log_version = 59
    pack_type = 10


class FacadeOfShell:
    spa = SpaFields()


@harness(prop="C19", target="geckolib.utils.shell:GeckoShell.version_strings")
def header_lines_carry_each_field_under_its_own_label(cfg: int, log: int, ptype: int, number: int):
    """the header the shell writes: one line per field, each field under the label the parser's pattern table looks for
    (all fields pairwise different, so any mix-up of two fields is visible); versions are arbitrary"""
    requires(both(0 <= cfg, cfg <= 255, 0 <= log, log <= 255, 0 <= ptype, ptype <= 255, 0 <= number, number <= 65535))
    sh = new(GeckoShell)
    sh.facade = FacadeOfShell()
    SpaFields.config_version = cfg
    SpaFields.log_version = log
    SpaFields.pack_type = ptype
    SpaFields.config_number = number
    lines = sh.version_strings
    ensures("nine-header-lines", len(lines) == 9)
    ensures("library-version-line", lines[0] == "geckolib version " + shell_module.VERSION)
    ensures("firmware-lines", both(lines[2] == "intouch version EN 70 v14.1", lines[3] == "intouch version CO 69 v11.2"))
    ensures("spa-pack-line", lines[4] == "Spa pack inYJ 177 v3.4")
    ensures("config-version-line", lines[6] == f"Config version {cfg}")
    ensures("log-version-line", lines[7] == f"Log version {log}")
    ensures("pack-type-line", lines[8] == f"Pack type {ptype}")
    ensures("configuration-number-line", lines[5] == f"Low level configuration # {number}")
    # what the parser's handlers make of the decimal renderings (regex capture itself: ASSUMED / bounded native check)
    s = GeckoSnapshot()
    s._re_config_version((str(cfg),))
    s._re_log_version((str(log),))
    ensures("versions-parse-back", both(s.config_version == cfg, s.log_version == log))
    cover("config-differs-from-log", cfg != log)
