"""C17 -- active/idle configuration switching is complete and wakes every sleeper.

Monitor invariant (ghost `waiting`: sleeper -> future it waits on):
    for every sleeper s:  waiting[s] is config.ConfigChange  or  waiting[s].done()
* config_sleep's atomic prefix preserves it (a future is replaced only when it is None or
  done) and makes the caller wait on the current, not-yet-done ConfigChange with exactly
  the delay it asked for;
* set_config_mode resolves the current ConfigChange, so afterwards every waiting future is done.
asyncio.wait's contract (returns as soon as a future is done, or after `timeout`) is ASSUMED.
"""
import asyncio

from verif_api import *
from geckolib import config
from geckolib.config import set_config_mode, config_sleep, _GeckoActiveConfig, _GeckoIdleConfig, _GeckoConfig
from geckolib.automation.async_facade import GeckoAsyncFacade


class Fut:
    def __init__(self, done=False):
        self._done = done
        self.results = []

    def done(self):
        return self._done

    def set_result(self, r):
        if self._done:
            raise RuntimeError("InvalidStateError: result already set")
        self._done = True
        self.results.append(r)


class Loop:
    def __init__(self):
        self.created = []

    def create_future(self):
        f = Fut(False)
        self.created.append(f)
        return f


class Waits:
    calls = []


async def rec_wait(futs, timeout=None):
    Waits.calls.append((list(futs), timeout))
    return (set(), set(futs))


async def rec_wait_for(fut, timeout=None):
    """asyncio.wait_for CANCELS what it waits for when the timeout expires -- fatal for a future that other sleepers share"""
    Waits.calls.append(([fut], timeout))
    Waits.cancelled_shared_future = True
    raise asyncio.TimeoutError()


# the two timing tables as published (seconds / counts), written out: "the complete active or idle table" means THESE values,
# not whatever a freshly constructed table object happens to carry
ACTIVE_TABLE = {"DISCOVERY_INITIAL_TIMEOUT_IN_SECONDS": 4, "DISCOVERY_TIMEOUT_IN_SECONDS": 10, "TASK_TIDY_FREQUENCY_IN_SECONDS": 5,
                "PING_FREQUENCY_IN_SECONDS": 2, "PING_DEVICE_NOT_RESPONDING_TIMEOUT_IN_SECONDS": 10, "FACADE_UPDATE_FREQUENCY_IN_SECONDS": 30,
                "SPA_PACK_REFRESH_FREQUENCY_IN_SECONDS": 30, "PROTOCOL_TIMEOUT_IN_SECONDS": 4, "PROTOCOL_RETRY_COUNT": 10,
                "PAUSE_BETWEEN_RETRIES_IN_SECONDS": 2}
IDLE_TABLE = {"DISCOVERY_INITIAL_TIMEOUT_IN_SECONDS": 4, "DISCOVERY_TIMEOUT_IN_SECONDS": 10, "TASK_TIDY_FREQUENCY_IN_SECONDS": 60,
              "PING_FREQUENCY_IN_SECONDS": 60, "PING_DEVICE_NOT_RESPONDING_TIMEOUT_IN_SECONDS": 120, "FACADE_UPDATE_FREQUENCY_IN_SECONDS": 120,
              "SPA_PACK_REFRESH_FREQUENCY_IN_SECONDS": 120, "PROTOCOL_TIMEOUT_IN_SECONDS": 4, "PROTOCOL_RETRY_COUNT": 10,
              "PAUSE_BETWEEN_RETRIES_IN_SECONDS": 2}


def setting_names(cls):
    return [n for n in dir(cls) if n.isupper() and not n.startswith("_")]


@harness(prop="C17", target="geckolib.config:set_config_mode")
def switch_installs_the_complete_table(active: bool, was_done: bool, stale: int):
    names = setting_names(_GeckoActiveConfig)
    ensures("both-tables-define-the-same-settings", names == setting_names(_GeckoIdleConfig))
    ensures("the-copied-member-list-is-complete", sorted(config.CONFIG_MEMBERS) == sorted(names))
    ensures("ten-settings", len(names) >= 10)
    # arbitrary previous content (a mixture): every setting must be overwritten
    for n in names:
        setattr(config.GeckoConfig, n, stale)
    fut = Fut(was_done)
    config.ConfigChange = fut
    set_config_mode(active)
    src = _GeckoActiveConfig if active else _GeckoIdleConfig
    lit = ACTIVE_TABLE if active else IDLE_TABLE
    ensures("published-table-names-every-setting", sorted(lit) == sorted(names))
    for n in names:
        ensures("setting-installed:" + n, getattr(config.GeckoConfig, n) == getattr(src, n))
        ensures("setting-has-its-published-value:" + n, getattr(config.GeckoConfig, n) == lit[n])
    ensures("current-wakeup-future-resolved", both(config.ConfigChange is fut, fut.done()))
    ensures("resolved-at-most-once", len(fut.results) == (0 if was_done else 1))
    cover("switch-while-future-already-done", was_done)


@harness(prop="C17", target="geckolib.config:config_sleep")
async def sleeper_waits_on_the_current_future(delay: int, state: int):
    requires(both(0 <= state, state <= 2, 0 <= delay))
    state = concrete_cases(state, 0, 2)
    loop = Loop()
    asyncio.get_running_loop = lambda: loop
    asyncio.wait = rec_wait
    asyncio.wait_for = rec_wait_for
    Waits.cancelled_shared_future = False
    Waits.calls = []
    old = None if state == 0 else Fut(state == 2)
    config.ConfigChange = old
    await config_sleep(delay)
    cur = config.ConfigChange
    ensures("waits-exactly-once", len(Waits.calls) == 1)
    (futs, timeout) = Waits.calls[0]
    ensures("waits-on-the-current-future-only", both(len(futs) == 1, futs[0] is cur))
    ensures("never-asks-to-sleep-longer-than-requested", timeout == delay)
    ensures("a-sleeper-timing-out-never-cancels-the-future-the-others-wait-on", not Waits.cancelled_shared_future)
    ensures("the-awaited-future-is-pending-when-the-wait-starts", both(cur is not None, not cur.done()))
    if state == 1:
        ensures("pending-future-is-never-abandoned", both(cur is old, len(loop.created) == 0))
    else:
        ensures("resolved-or-missing-future-is-replaced", both(cur is not old, len(loop.created) == 1))
    cover("pending", state == 1)


class Dev:
    def __init__(self, on):
        self.is_on = on


class Modes:
    calls = []


@summary("geckolib.config:set_config_mode", name="mode_recorder", note="recorder stub: the real function is proved above")
def mode_recorder(active):
    Modes.calls.append(active)


@harness(prop="C17", target="geckolib.automation.async_facade:GeckoAsyncFacade._on_config_device_change",
         uses=["mode_recorder"], proves=None)
def facade_selects_active_iff_some_pump_or_blower_on(np: int, nb: int, a: bool, b: bool, c: bool, d: bool, e: bool, f: bool, g: bool):
    """device lists as long as the DEVICES table allows (<= 6 pump-class devices, <= 1 blower), any on/off combination"""
    requires(both(0 <= np, np <= 6, 0 <= nb, nb <= 1))
    np = concrete_cases(np, 0, 6)
    nb = concrete_cases(nb, 0, 1)
    flags = [a, b, c, d, e, f]
    fac = new(GeckoAsyncFacade)
    fac._pumps = [Dev(flags[i]) for i in range(np)]
    fac._blowers = [Dev(g) for i in range(nb)]
    Modes.calls = []
    fac._on_config_device_change()
    want = either(*([flags[i] for i in range(np)] + [g for i in range(nb)] + [False]))
    ensures("exactly-one-switch", len(Modes.calls) == 1)
    ensures("active-iff-some-pump-or-blower-is-on", Modes.calls[0] == want)
    cover("all-off-selects-idle", both(np == 2, not a, not b))


# ----------------------------------------- "some pump or blower is on": the real devices on the real state items
from geckolib.automation.pump import GeckoPump
from geckolib.automation.blower import GeckoBlower
from geckolib.automation.sensors import GeckoSensor
from geckolib.const import GeckoConstants


@harness(prop="C17", cases="c17_device_state_shapes", target="geckolib.automation.pump:GeckoPump.is_on",
         name="device_counts_as_on_unless_its_state_item_reads_off")
def device_counts_as_on_unless_its_state_item_reads_off(shape, pos: int, block: bytes, blower: bool):
    """every shape a pump / waterfall / blower state item has in the shipped tables (two-speed, on/off, flag), any block:
    the device is on exactly when its state item does not read OFF (a flag item: when it is set)"""
    from contracts.c02_accessor import build, spec_length, RecStruct
    requires(len(block) == 1024)
    requires(both(0 <= pos, pos + spec_length(shape) <= 1024))
    acc = build(shape, RecStruct(block), pos)
    sensor = new(GeckoSensor)
    sensor._accessor = acc
    dev = new(GeckoBlower) if blower else new(GeckoPump)
    dev._state_sensor = sensor
    dev._accessor = acc
    state = acc.value
    if shape["cls"] == "GeckoBoolStructAccessor":
        ensures("flag-item:on-iff-set", dev.is_on == state)
    else:
        ensures("on-iff-the-state-is-not-OFF", dev.is_on == (state != "OFF"))
    cover("reached-end", True)


# which item says whether device X runs: the device table, literally (shared with C12)
from contracts import c12_inventory
harness(prop="C17", target="geckolib.const:GeckoConstants", name="each_device_reads_its_own_state_item")(c12_inventory.device_table_is_the_published_one)
