"""C02 -- pack-table items: write-then-read returns the value, no other bit changes.

One proof per distinct accessor *shape* (class, bit position, label list, size, maxitems,
writability) found in the tables of the working tree; position, the whole 1024-byte
block and the written value are symbolic, so each proof covers every item of that shape
at every position, every existing field content and every domain value.
"""
from verif_api import *
from geckolib.driver import accessor as acc_mod
from geckolib.driver.accessor import (
    GeckoStructAccessor, GeckoByteStructAccessor, GeckoWordStructAccessor, GeckoTimeStructAccessor,
    GeckoBoolStructAccessor, GeckoEnumStructAccessor,
)


class RecStruct:
    """stand-in for the structure the accessor delegates to: records device writes"""

    def __init__(self, block):
        self.status_block = block
        self.calls = []
        self.accessors = {}

    def set_value(self, pos, length, newvalue):
        self.calls.append((pos, length, newvalue))

    async def async_set_value(self, pos, length, newvalue):
        self.calls.append((pos, length, newvalue))


def build(shape, struct_, pos):
    """construct the accessor through the real constructor, exactly as the table does"""
    c = shape["cls"]
    if c == "GeckoByteStructAccessor":
        return GeckoByteStructAccessor(struct_, "item", pos, shape["rw"])
    if c == "GeckoWordStructAccessor":
        return GeckoWordStructAccessor(struct_, "item", pos, shape["rw"])
    if c == "GeckoTimeStructAccessor":
        return GeckoTimeStructAccessor(struct_, "item", pos, shape["rw"])
    if c == "GeckoBoolStructAccessor":
        return GeckoBoolStructAccessor(struct_, "item", pos, shape["bitpos"], shape["rw"])
    return GeckoEnumStructAccessor(struct_, "item", pos, shape["bitpos"], shape["items_raw"], shape["size"],
                                   shape["maxitems"], shape["rw"])


def spec_length(shape):
    """field width in bytes, from the table declaration (not from the accessor)"""
    if shape["cls"] in ("GeckoWordStructAccessor", "GeckoTimeStructAccessor"):
        return 2
    if shape["size"] is not None:
        return shape["size"]
    return 1


def spec_mask(shape):
    """bit mask of the item's own field inside its word, from the table declaration"""
    length = spec_length(shape)
    if shape["bitpos"] is None:
        return 256 ** length - 1
    n = 1
    mi = shape["maxitems"]
    if mi is not None:
        if mi > 8:
            n = 15
        elif mi > 4:
            n = 7
        elif mi > 2:
            n = 3
    return n << shape["bitpos"]


def word_at(block, pos, length):
    if length == 1:
        return byte_at(block, pos)
    return byte_at(block, pos) * 256 + byte_at(block, pos + 1)


def pack_word(length, w):
    if length == 1:
        return bytes([w])
    return bytes([w // 256, w % 256])


def apply_write(block, call):
    """what the device does with a write: store the big-endian word at pos"""
    pos, length, w = call
    return block[0:pos] + pack_word(length, w) + block[pos + length:]


def check_write(shape, a, s, block, pos, value, canonical):
    """the postcondition of one write (written from the property statement)"""
    length = spec_length(shape)
    mask = spec_mask(shape)
    ensures("exactly-one-device-write", len(s.calls) == 1)
    (wpos, wlen, w) = s.calls[0]
    ensures("write-addresses-the-item", both(wpos == pos, wlen == length))
    ensures("word-fits-its-width", both(0 <= w, w < 256 ** length))
    old = word_at(block, pos, length)
    ensures("bits-outside-field-unchanged", (w & ~mask) == (old & ~mask))
    nb = apply_write(block, s.calls[0])
    ensures("block-length-unchanged", len(nb) == 1024)
    got = a._get_value(nb)
    ensures("reads-back-the-written-value", got == canonical)


def label_cases(shape):
    """labels with their *first* index (the index a write of that label produces)"""
    items = shape["items"]
    seen = []
    out = []
    for i in range(len(items)):
        if items[i] not in seen:
            seen.append(items[i])
            out.append((i, items[i]))
    return out


def representable(shape, idx):
    """C18 well-formedness of the label: its index fits the item's bit field"""
    if shape["bitpos"] is None:
        return idx < 256 ** spec_length(shape)
    return idx <= (spec_mask(shape) >> shape["bitpos"])


@harness(prop="C02", cases="c02_writable_shapes", target="geckolib.driver.accessor:GeckoStructAccessor._set_value")
def write_then_read(shape, pos: int, block: bytes, n: int, flag: bool, hh: int, mm: int):
    length = spec_length(shape)
    requires(len(block) == 1024)
    requires(both(0 <= pos, pos + length <= 1024))
    s = RecStruct(block)
    a = build(shape, s, pos)
    c = shape["cls"]
    if c == "GeckoByteStructAccessor":
        requires(both(0 <= n, n <= 255))
        a.value = n
        check_write(shape, a, s, block, pos, n, n)
    elif c == "GeckoWordStructAccessor":
        requires(both(0 <= n, n <= 65535))
        a.value = n
        check_write(shape, a, s, block, pos, n, n)
    elif c == "GeckoBoolStructAccessor":
        a.value = flag
        check_write(shape, a, s, block, pos, flag, flag)
    elif c == "GeckoTimeStructAccessor":
        requires(both(0 <= hh, hh <= 255, 0 <= mm, mm <= 255))
        text = f"{hh:02}:{mm:02}"
        a.value = text
        check_write(shape, a, s, block, pos, text, text)
    else:
        k = fresh_int("label_case", 0, len(shape["items"]) - 1)
        k = concrete_cases(k, 0, len(shape["items"]) - 1)
        label = shape["items"][k]
        first = shape["items"].index(label)
        requires(representable(shape, first))
        a.value = label
        check_write(shape, a, s, block, pos, label, label)
    cover("reached-end", True)


@harness(prop="C02", cases="c02_writable_shapes", target="geckolib.driver.accessor:GeckoStructAccessor.async_set_value")
async def async_write_equals_sync_write(shape, pos: int, block: bytes, n: int, flag: bool, hh: int, mm: int):
    """the awaitable path emits the identical device write (hence the same post-state)"""
    length = spec_length(shape)
    requires(len(block) == 1024)
    requires(both(0 <= pos, pos + length <= 1024))
    s1 = RecStruct(block)
    s2 = RecStruct(block)
    a1 = build(shape, s1, pos)
    a2 = build(shape, s2, pos)
    c = shape["cls"]
    if c == "GeckoByteStructAccessor":
        requires(both(0 <= n, n <= 255))
        v = n
    elif c == "GeckoWordStructAccessor":
        requires(both(0 <= n, n <= 65535))
        v = n
    elif c == "GeckoBoolStructAccessor":
        v = flag
    elif c == "GeckoTimeStructAccessor":
        requires(both(0 <= hh, hh <= 255, 0 <= mm, mm <= 255))
        v = f"{hh:02}:{mm:02}"
    else:
        k = fresh_int("label_case", 0, len(shape["items"]) - 1)
        k = concrete_cases(k, 0, len(shape["items"]) - 1)
        v = shape["items"][k]
    a1.value = v
    await a2.async_set_value(v)
    ensures("one-write-each", both(len(s1.calls) == 1, len(s2.calls) == 1))
    ensures("identical-device-writes", s1.calls[0] == s2.calls[0])
    cover("reached-end", True)


@harness(prop="C02", cases="c02_writable_shapes", target="geckolib.driver.accessor:GeckoStructAccessor._set_value",
         name="string_forms")
async def string_forms(shape, pos: int, block: bytes, n: int):
    """string forms of numbers / booleans are accepted and mean the same write"""
    length = spec_length(shape)
    requires(len(block) == 1024)
    requires(both(0 <= pos, pos + length <= 1024))
    c = shape["cls"]
    if c == "GeckoByteStructAccessor" or c == "GeckoWordStructAccessor":
        requires(both(0 <= n, n < 256 ** length))
        s1 = RecStruct(block)
        s2 = RecStruct(block)
        s3 = RecStruct(block)
        build(shape, s1, pos).value = n
        build(shape, s2, pos).value = str(n)
        await build(shape, s3, pos).async_set_value(str(n))
        ensures("string-number-same-write", both(s1.calls == s2.calls, s1.calls == s3.calls, len(s1.calls) == 1))
    elif c == "GeckoBoolStructAccessor":
        for text, val in (("true", True), ("True", True), ("TRUE", True), ("false", False), ("False", False), ("FALSE", False)):
            s1 = RecStruct(block)
            s2 = RecStruct(block)
            s3 = RecStruct(block)
            build(shape, s1, pos).value = val
            build(shape, s2, pos).value = text
            await build(shape, s3, pos).async_set_value(text)
            ensures("string-boolean-same-write", both(s1.calls == s2.calls, s1.calls == s3.calls, len(s1.calls) == 1))
    cover("reached-end", True)


@harness(prop="C02", cases="c02_readonly_shapes", target="geckolib.driver.accessor:GeckoStructAccessor._set_value",
         name="readonly_refuses")
async def readonly_refuses(shape, pos: int, block: bytes, n: int):
    """items without write permission refuse writes on both paths and emit nothing"""
    length = spec_length(shape)
    requires(len(block) == 1024)
    requires(both(0 <= pos, pos + length <= 1024))
    s = RecStruct(block)
    a = build(shape, s, pos)
    v = n
    if shape["items"] is not None and len(shape["items"]) > 0:
        v = shape["items"][0]
    refused = False
    try:
        a.value = v
    except Exception:
        refused = True
    ensures("sync-write-refused", refused)
    refused2 = False
    try:
        await a.async_set_value(v)
    except Exception:
        refused2 = True
    ensures("async-write-refused", refused2)
    ensures("no-device-write", len(s.calls) == 0)
    cover("reached-end", True)


# temperature items: the value domain of C02 includes temperatures (the float arithmetic is C14's)
def _register_temperature_contracts():
    from contracts import c14_temp
    harness(prop="C02", target="geckolib.driver.accessor:GeckoTempStructAccessor._set_value", uses=["raw_word_contract"], timeout=300,
            cases="c14_units", name="temperature_write_then_read")(c14_temp.representable_temperature_reads_back_exactly)
    harness(prop="C02", target="geckolib.driver.accessor:GeckoTempStructAccessor.async_set_value", uses=["raw_word_contract"], timeout=300,
            cases="c14_units", name="temperature_write_then_read_async")(c14_temp.representable_temperature_reads_back_exactly_async)
    harness(prop="C02", target="geckolib.driver.accessor:GeckoTempStructAccessor.async_set_value", uses=["raw_word_contract"],
            name="temperature_sync_async_same_write")(c14_temp.sync_async_same_word)


_register_temperature_contracts()


@harness(prop="C02", target="geckolib.driver.accessor:GeckoTempStructAccessor._set_value", name="readonly_temperature_refuses")
async def readonly_temperature_refuses(pos: int, celsius: bool, t: float, use_async: bool):
    """temperature items without write permission (DisplayedTempG, RealSetPointG, ... are declared RW None) refuse
    writes on both paths and emit nothing; with permission exactly one write is emitted"""
    from contracts import c14_temp
    from geckolib.driver.accessor import GeckoTempStructAccessor
    requires(both(0 <= pos, pos + 2 <= 1024, 0.0 <= t, t <= 100.0))
    for rw in (None, "ALL"):
        s = c14_temp.TempStruct("C" if celsius else "F")
        a = GeckoTempStructAccessor(s, "DisplayedTempG", pos, rw)
        refused = False
        try:
            if use_async:
                await a.async_set_value(t)
            else:
                a.value = t
        except Exception:
            refused = True
        if rw is None:
            ensures("write-without-permission-refused", refused)
            ensures("no-device-write", len(s.calls) == 0)
        else:
            ensures("write-with-permission-emits-one-device-write", both(not refused, len(s.calls) == 1, s.calls[0][0] == pos, s.calls[0][1] == 2))
    cover("reached-end", True)


class Delegated:
    calls = []


def rec_set(pos, length, newvalue):
    Delegated.calls.append(("sync", pos, length, newvalue))


async def rec_async_set(pos, length, newvalue):
    Delegated.calls.append(("async", pos, length, newvalue))


@harness(prop="C02", target="geckolib.driver.async_spastruct:GeckoAsyncStructure.async_set_value", name="structure_hands_every_write_to_the_device")
async def structure_hands_every_write_to_the_device(block: bytes, pos: int, length: int, word: int, blocking_class: bool):
    """between the accessor and the connection sits the structure: it passes every write on, exactly once and unchanged -- also
    a write of the value the local copy already shows (the copy may be stale; only the spa's echo is authoritative)"""
    from geckolib.driver.spastruct import GeckoStructure
    from geckolib.driver.async_spastruct import GeckoAsyncStructure
    requires(both(len(block) == 1024, 1 <= length, length <= 2, 0 <= pos, pos + length <= 1024, 0 <= word, word < 65536))
    length = concrete_cases(length, 1, 2)
    Delegated.calls = []
    if blocking_class:
        s = GeckoStructure(rec_set)
        s.set_status_block(block)
        s.set_value(pos, length, word)
        ensures("passed-on-exactly-once-unchanged", Delegated.calls == [("sync", pos, length, word)])
    else:
        s = GeckoAsyncStructure(rec_set, rec_async_set)
        s.set_status_block(block)
        await s.async_set_value(pos, length, word)
        s.set_value(pos, length, word)
        ensures("passed-on-exactly-once-unchanged", Delegated.calls == [("async", pos, length, word), ("sync", pos, length, word)])
    ensures("local-copy-untouched-until-the-spa-echoes", s.status_block == block)
